"""Fail-closed translator of whole node methods: streamz/core.py `<class>.update` (and helpers it calls, `collect.flush`)
-> coq/theories/Gen/KN_<class>.v, on every run, from the CURRENT source under test.

The generated term is built compositionally from the Python AST: every statement becomes one step of the monad of
coq/theories/Base/MiniPy.v, in source order, with the python source of the statement as a comment above it.
Base/BridgeNodes.v proves `generated = update of the hand-written model (Sync/Nodes.v)`.

What is hand written per class is only the *schema* below: which python attribute is which kind of thing
(a constructor argument of the model's kind, a user function, a state attribute with its type) and the name of the
model-side definition of each attribute / container method in MiniPy.v (`<class>_<attr>[_<method>]`).  Any statement,
expression, attribute or method that is not covered raises KernelError -> the generated file is replaced by one that does
not compile -> every property whose cone contains the bridge reports the obligation as broken.

Modelling assumptions the translator makes are printed into the generated file (section `assumptions`)."""
import ast
import re

import pynorm
from gen_kernels import KernelError, find_class
from gen_kernels import find_func as find_func_raw


def find_func(node, name):
    """the method, normalised (harness/pynorm.py: python-level identities that reduce the number of source shapes)"""
    return pynorm.normalize(find_func_raw(node, name))


def cq(s):
    """python source text -> safe inside a Coq comment"""
    return s.replace("(*", "( *").replace("*)", "* )").replace('"', "'")


# ------------------------------------------------------------------------------------------------------------------
# types of the translator (strings / tuples); `coq_ty` renders them
# ------------------------------------------------------------------------------------------------------------------
def coq_ty(t):
    if isinstance(t, tuple):
        if t[0] == "list":
            return "(list %s)" % coq_ty(t[1])
        if t[0] == "pair":
            return "(%s * %s)" % (coq_ty(t[1]), coq_ty(t[2]))
        if t[0] == "opt":
            return "(option %s)" % coq_ty(t[1])
        if t[0] == "dict":
            return "(list (val * %s))" % coq_ty(t[1])
        if t[0] == "tuple":
            return "(list %s)" % coq_ty(t[1])
    return {"val": "val", "md": "md", "bool": "bool", "nat": "nat", "aw": "aw", "unit": "unit", "optval": "(option val)",
            "optnat": "(option nat)", "pick": "pick", "key": "val"}[t]


VALS = ("list", "val")
MDS = ("list", "md")
PAIR = ("pair", "val", "md")
PAIRS = ("list", PAIR)


class Attr:
    """schema entry for `self.<name>`"""

    def __init__(self, kind, ty=None, coq=None, arity=None, ret=None, absorbed=(), const=None, variants=None):
        self.kind = kind          # 'field' | 'param' | 'func' | 'const' | 'union'
        self.ty = ty
        self.coq = coq
        self.arity = arity
        self.ret = ret
        self.absorbed = absorbed
        self.const = const
        self.variants = variants


def field(ty):
    return Attr("field", ty=ty)


def param(ty, coq=None):
    return Attr("param", ty=ty, coq=coq)


def func(arity, ret, absorbed=("args", "kwargs"), coq=None, star=False):
    a = Attr("func", arity=arity, ret=ret, absorbed=absorbed, coq=coq)
    a.star = star
    return a


class Op:
    """container method of a state attribute: self.<attr>.<meth>(args) -> <class>_<attr>_<meth>"""

    def __init__(self, args, ret, mode, pre=()):
        self.args = args          # list of argument types
        self.ret = ret            # result type or None
        self.mode = mode          # 'rd' pure read | 'wr' mutation | 'wr_get' mutation with a result (may raise)
        self.pre = pre            # constructor arguments of the class the model-side definition needs (e.g. maxlen)


# ------------------------------------------------------------------------------------------------------------------
# the translator
# ------------------------------------------------------------------------------------------------------------------
class Bind:
    def __init__(self, var, term, effect):
        self.var, self.term, self.effect = var, term, effect


class NodeTr:
    def __init__(self, core, cls, schema):
        self.core = core
        self.cls = cls
        self.sc = schema
        self.classdef = find_class(core, cls)
        self.n = 0
        self.assumptions = []
        self.stateful = False
        self.inlining = []
        self.tails = []           # inside a loop body: how the body ends (the reassigned locals are handed on)

    # ---- utilities ------------------------------------------------------------------------------------------------
    def fresh(self, base="v"):
        self.n += 1
        return "%s%d" % (base, self.n)

    def assume(self, text):
        if text not in self.assumptions:
            self.assumptions.append(text)

    def err(self, what, node=None):
        where = ""
        if node is not None and hasattr(node, "lineno"):
            where = " (core.py line %d)" % node.lineno
        raise KernelError("%s.%s: %s%s" % (self.cls, self.method, what, where))

    def attr(self, name, node=None):
        a = self.sc["attrs"].get(name)
        if a is None:
            self.err("attribute self.%s is not in the schema of the class" % name, node)
        return a

    def opname(self, attr, meth=None):
        return "%s_%s%s" % (self.cls, attr, ("_" + meth) if meth else "")

    # ---- expressions ----------------------------------------------------------------------------------------------
    # ex() returns (coq term, type); reads of state / fallible operations / effects are appended to `binds` in
    # evaluation order (python evaluates left to right).
    def ex(self, e, env, binds):
        m = getattr(self, "ex_" + type(e).__name__, None)
        if m is None:
            self.err("expression form %s not translatable: %s" % (type(e).__name__, ast.unparse(e)), e)
        return m(e, env, binds)

    def bind(self, binds, term, effect, base="v"):
        v = self.fresh(base)
        binds.append(Bind(v, term, effect))
        return v

    def ex_Name(self, e, env, binds):
        if e.id in env:
            term, ty = env[e.id]
            if isinstance(ty, tuple) and ty[0] == "alias":      # a name for the container self.<owner>[key]
                owner, tk = term
                return (self.bind(binds, "rd (%s %s)" % (self.opname(owner, "getitem"), tk), False), ty[1])
            if isinstance(ty, tuple) and ty[0] == "iter":
                self.err("iterator %s used as a value" % e.id, e)
            return env[e.id]
        self.err("unknown name %s" % e.id, e)

    def alias_call(self, alias, meth, args, env, binds, node):
        (owner, tk), ty = alias
        op = self.sc.get("ops", {}).get((owner, "item_" + meth))
        if op is None:
            self.err("method %s of an element of self.%s" % (meth, owner), node)
        if len(args) != len(op.args):
            self.err("argument count of %s" % meth, node)
        terms = [tk]
        for a, want in zip(args, op.args):
            t1, ty1 = self.ex(a, env, binds)
            if ty1 != want:
                self.err("element of self.%s: %s(<%s>), expected %s" % (owner, meth, ty1, want), node)
            terms.append(t1)
        self.stateful = True
        self.bind(binds, "wr (%s %s)" % (self.opname(owner, "item_" + meth), " ".join(terms)), True, "u")
        return ("tt", "unit")

    def ex_Constant(self, e, env, binds):
        if e.value is None:
            return ("VNone", "val")
        if e.value is True:
            return ("true", "bool")
        if e.value is False:
            return ("false", "bool")
        if isinstance(e.value, int):
            return ("%d" % e.value, "nat")
        self.err("constant %r" % (e.value,), e)

    def self_attr(self, e):
        if isinstance(e, ast.Attribute) and isinstance(e.value, ast.Name) and e.value.id == "self":
            return e.attr
        return None

    def ex_Attribute(self, e, env, binds):
        name = self.self_attr(e)
        if name is None:
            self.err("attribute access %s" % ast.unparse(e), e)
        key = "self." + name
        if key in env:                      # narrowed by an isinstance test
            return env[key]
        a = self.attr(name, e)
        if a.kind == "param":
            return (a.coq or name, a.ty)
        if a.kind == "field":
            v = self.bind(binds, "rd %s" % self.opname(name), False)
            return (v, a.ty)
        if a.kind == "upstreams" and self.sc.get("ports"):
            v = self.bind(binds, "rd %s_upstreams" % self.cls, False)
            return (v, ("list", "nat"))
        self.err("self.%s used as a value" % name, e)

    def as_val(self, term, ty, binds, node):
        """coerce to a pipeline value"""
        if ty == "val" or ty == "key":
            return term
        if ty == "optval":                 # attribute that may hold the no_default sentinel
            return self.bind(binds, "lift %s" % term, True)
        if ty == ("tuple", "val"):          # a python tuple of values
            return "(VTup %s)" % term
        self.err("a %s is used where a value is needed" % (ty,), node)

    def ex_Tuple(self, e, env, binds):
        parts = [self.ex(x, env, binds) for x in e.elts]
        if len(parts) == 2 and parts[1][1] == "md" and parts[0][1] in ("val",):
            return ("(%s, %s)" % (parts[0][0], parts[1][0]), PAIR)
        terms = [self.as_val(t, ty, binds, e) for t, ty in parts]
        return ("(VTup [%s])" % "; ".join(terms), "val")

    def ex_List(self, e, env, binds):
        if not e.elts:
            return ("[]", "nil")
        self.err("list display %s" % ast.unparse(e), e)

    def ex_Dict(self, e, env, binds):
        if not e.keys:
            return ("[]", "nil")
        self.err("dict display", e)

    def truthy(self, term, ty, node):
        if ty == "bool":
            return term
        if ty == "md":
            return "(truthy_md %s)" % term
        if ty == "nat":
            return "(negb (%s =? 0))" % term
        if ty == "optnat":
            return "(truthy_optnat %s)" % term
        if ty == ("list", "bool"):
            return "(truthy_flags %s)" % term
        if isinstance(ty, tuple) and ty[0] == "list":
            return "(truthy_list %s)" % term
        if isinstance(ty, tuple) and ty[0] == "opt" and ty[1] == "md":
            return "(truthy_optmd %s)" % term
        self.err("truthiness of a %s" % (ty,), node)

    # ---- tests already decided on the current path ------------------------------------------------------------------
    # Inside the branches of `if c:` the value of the Coq term c is known.  Terms are over bound variables (every read of
    # the state binds a fresh one) and `let`-bound locals, so a fact stays true as long as no local in it is rebound
    # (drop_facts).  A later test that is the same term is then a constant: `if a and b: P elif a: Q` with b constant
    # True makes Q dead code exactly as the nested form `if a: if b: P else: Q` does.
    def with_fact(self, env, c, value):
        if c in ("true", "false"):
            return env
        env = dict(env)
        facts = dict(env.get("?facts", ({}, "facts"))[0])
        while c.startswith("(negb ") and c.endswith(")"):
            c, value = c[6:-1], not value
        facts[c] = value
        env["?facts"] = (facts, "facts")
        return env

    def drop_facts(self, env, name):
        if "?facts" in env:
            pat = re.compile(r"(?<![A-Za-z0-9_'])%s(?![A-Za-z0-9_'])" % re.escape(name))
            env["?facts"] = ({c: v for c, v in env["?facts"][0].items() if not pat.search(c)}, "facts")

    def cond(self, e, env, binds):
        """expression in boolean context -> coq bool term (a constant when the path has decided it)"""
        c = self.cond0(e, env, binds)
        facts = env.get("?facts", ({}, "facts"))[0]
        neg, core = False, c
        while core.startswith("(negb ") and core.endswith(")"):
            neg, core = not neg, core[6:-1]
        if core in facts:
            return "true" if facts[core] != neg else "false"
        return c

    def len_test(self, e):
        """`len(c) != 0`, `len(c) > 0`, `0 < len(c)`, `len(c) >= 1` ... -> (c, True); `len(c) == 0`, `len(c) < 1` ... -> (c, False):
        for the sized containers the translator knows (list, deque, dict, set) this IS the truth value of c"""
        if not (isinstance(e, ast.Compare) and len(e.ops) == 1):
            return None
        a, op, b = e.left, e.ops[0], e.comparators[0]
        mirror = {ast.Lt: ast.Gt, ast.Gt: ast.Lt, ast.LtE: ast.GtE, ast.GtE: ast.LtE, ast.Eq: ast.Eq, ast.NotEq: ast.NotEq}
        if type(op) not in mirror:
            return None
        kind = type(op)
        if isinstance(a, ast.Constant):
            a, b, kind = b, a, mirror[kind]
        if not (isinstance(a, ast.Call) and isinstance(a.func, ast.Name) and a.func.id == "len" and len(a.args) == 1
                and not a.keywords and isinstance(b, ast.Constant) and type(b.value) is int):
            return None
        table = {(ast.NotEq, 0): True, (ast.Gt, 0): True, (ast.GtE, 1): True,
                 (ast.Eq, 0): False, (ast.LtE, 0): False, (ast.Lt, 1): False}
        if (kind, b.value) not in table:
            return None
        return a.args[0], table[(kind, b.value)]

    def cond0(self, e, env, binds):
        lt = self.len_test(e)
        if lt is not None:
            t, ty = self.ex(lt[0], env, binds)
            if ty == "md" or isinstance(ty, tuple) and ty[0] in ("list", "dict"):
                c = self.truthy(t, ty, e)
                return c if lt[1] else "(negb %s)" % c
            self.err("len() of a %s" % (ty,), e)
        if isinstance(e, ast.BoolOp):
            op = "&&" if isinstance(e.op, ast.And) else "||"
            parts = []
            for i, v in enumerate(e.values):
                sub = []
                parts.append(self.cond(v, env, sub))
                if i > 0 and any(b.effect for b in sub):
                    self.err("operand with an effect in short-circuit position: %s" % ast.unparse(v), v)
                binds.extend(sub)
            absorbing = "false" if op == "&&" else "true"
            if absorbing in parts[:1]:
                return absorbing
            parts = [q for q in parts if q not in ("true", "false")] if absorbing not in parts else parts
            if not parts:
                return "true" if op == "&&" else "false"
            if len(parts) == 1:
                return parts[0]
            return "(" + (" %s " % op).join(parts) + ")"
        if isinstance(e, ast.UnaryOp) and isinstance(e.op, ast.Not):
            c = self.cond(e.operand, env, binds)
            if c in ("true", "false"):
                return "false" if c == "true" else "true"
            return "(negb %s)" % c
        t, ty = self.ex(e, env, binds)
        return self.truthy(t, ty, e)

    def ex_BoolOp(self, e, env, binds):
        return (self.cond(e, env, binds), "bool")

    def ex_UnaryOp(self, e, env, binds):
        if isinstance(e.op, ast.Not):
            return (self.cond(e, env, binds), "bool")
        self.err("unary operator", e)

    def ex_Compare(self, e, env, binds):
        if len(e.ops) != 1:
            self.err("chained comparison", e)
        op, a, b = e.ops[0], e.left, e.comparators[0]
        bsrc = ast.unparse(b)
        if isinstance(op, (ast.Is, ast.IsNot)):
            neg = isinstance(op, ast.IsNot)
            res = None
            if bsrc == "no_default":
                t, ty = self.ex(a, env, binds)
                if ty != "optval":
                    self.err("`is no_default` on a %s" % (ty,), e)
                res = "(is_no_default %s)" % t
            elif bsrc == "None":
                name = self.self_attr(a)
                if name is not None and self.attr(name, a).kind == "optfunc":
                    res = "(is_none_fn %s)" % (self.attr(name, a).coq or name)
                elif name is not None and self.attr(name, a).kind == "param" and self.attr(name, a).ty == "outside":
                    # an argument that the model fixes to None (e.g. partition's timeout)
                    self.assume("self.%s is None (the model does not cover it)" % name)
                    res = "true"
                else:
                    t, ty = self.ex(a, env, binds)
                    if isinstance(ty, tuple) and ty[0] == "opt" or ty in ("optnat", "optkey"):
                        res = "(is_none %s)" % t
                    else:
                        self.err("`is None` on a %s" % (ty,), e)
            elif bsrc == "list" and isinstance(a, ast.Call) and isinstance(a.func, ast.Name) and a.func.id == "type" \
                    and len(a.args) == 1 and isinstance(a.args[0], ast.Name) and env.get(a.args[0].id, (0, 0))[1] == "aw":
                self.assume("type(self._emit(..)) is list")
                res = "true"
            elif self.self_attr(b) is not None and self.attr(self.self_attr(b), b).kind == "upstream0" \
                    and isinstance(a, ast.Name) and a.id == "who":
                # `who is self.lossless`: the first upstream
                res = "(%s =? 0)" % env["who"][0]
            else:
                self.err("identity test against %s" % bsrc, e)
            if res in ("true", "false") and neg:
                return ("false" if res == "true" else "true", "bool")
            return (("(negb %s)" % res) if neg else res, "bool")
        if isinstance(op, (ast.Eq, ast.NotEq)) and self.self_attr(a) is not None \
                and self.attr(self.self_attr(a), a).kind == "strflag" and isinstance(b, ast.Constant) and isinstance(b.value, str):
            at = self.attr(self.self_attr(a), a)
            if b.value not in at.variants:
                self.err("self.%s compared with %r: the model knows only %s" % (self.self_attr(a), b.value, sorted(at.variants)), e)
            r = at.variants[b.value]
            return (("(negb %s)" % r) if isinstance(op, ast.NotEq) else r, "bool")
        if isinstance(op, (ast.Eq, ast.NotEq)):
            ta, tya = self.ex(a, env, binds)
            tb, tyb = self.ex(b, env, binds)
            if tya == "nat" and tyb == "nat":
                r = "(%s =? %s)" % (ta, tb)
            elif tya == tyb and tya in self.sc.get("eq", {}):
                r = "(%s %s %s)" % (self.sc["eq"][tya], ta, tb)
            else:
                self.err("== between %s and %s" % (tya, tyb), e)
            return (("(negb %s)" % r) if isinstance(op, ast.NotEq) else r, "bool")
        if isinstance(op, (ast.Lt, ast.LtE, ast.Gt, ast.GtE)):
            ta, tya = self.ex(a, env, binds)             # operands are evaluated left to right as written ...
            tb, tyb = self.ex(b, env, binds)
            if isinstance(op, (ast.Gt, ast.GtE)):        # ... a > b is then read as b < a, a >= b as b <= a
                ta, tya, tb, tyb = tb, tyb, ta, tya
            strict = isinstance(op, (ast.Lt, ast.Gt))
            if tya == "nat" and tyb == "nat":
                return (("(%s <? %s)" if strict else "(%s <=? %s)") % (ta, tb), "bool")
            if tya == "optnat" and tyb == "nat" and not strict:      # end <= state where end may be None (guarded)
                return ("(optnat_le %s %s)" % (ta, tb), "bool")
            self.err("order comparison between %s and %s" % (tya, tyb), e)
        if isinstance(op, (ast.In, ast.NotIn)):
            r = self.membership(a, b, env, binds, e)
            return (("(negb %s)" % r) if isinstance(op, ast.NotIn) else r, "bool")
        self.err("comparison %s" % ast.unparse(e), e)

    def membership(self, a, b, env, binds, node):
        """a in b"""
        name = self.self_attr(b)
        ta, tya = self.ex(a, env, binds)
        if name is not None:
            ops = self.sc.get("ops", {})
            if (name, "contains") in ops:
                op = ops[(name, "contains")]
                if [tya] != op.args:
                    self.err("`in self.%s` with a %s" % (name, tya), node)
                call = " ".join([self.opname(name, "contains")] + list(op.pre) + [ta])
                if op.mode == "pure":
                    return "(%s)" % call
                return self.bind(binds, "rd (%s)" % call, False)
        self.err("membership test %s" % ast.unparse(node), node)

    def ex_BinOp(self, e, env, binds):
        ta, tya = self.ex(e.left, env, binds)
        tb, tyb = self.ex(e.right, env, binds)
        if isinstance(e.op, ast.Add) and tya == "val" and tyb == VALS:
            return (self.bind(binds, "lift (tuple_add %s %s)" % (ta, tb), True), "val")
        if tya == "nat" and tyb == "nat":
            sym = {ast.Add: "+", ast.Sub: "-", ast.Mod: "mod"}.get(type(e.op))
            if sym:
                return ("(%s %s %s)" % (ta, sym, tb), "nat")
        self.err("operator %s between %s and %s" % (type(e.op).__name__, tya, tyb), e)

    def ex_Subscript(self, e, env, binds):
        name = self.self_attr(e.value)
        if name is not None and self.attr(name, e).kind == "field":
            if (name, "touch") in self.sc.get("ops", {}):        # defaultdict: reading a missing key creates it
                self.container_call(name, "touch", [e.slice], env, binds, e)
            return self.container_call(name, "getitem", [e.slice], env, binds, e)
        tv, tyv = self.ex(e.value, env, binds)
        ti, tyi = self.ex(e.slice, env, binds)
        if tyv == "val" and tyi == "nat":
            return (self.bind(binds, "lift (py_index %s %s)" % (tv, ti), True), "val")
        if isinstance(tyv, tuple) and tyv[0] == "list" and tyi == "nat":
            return (self.bind(binds, "lift (nth_error %s %s)" % (tv, ti), True), tyv[1])
        self.err("subscript %s (%s[%s])" % (ast.unparse(e), tyv, tyi), e)

    def join_ty(self, a, b, node):
        """the type of a value that is an <a> on one path and a <b> on the other"""
        if a == b:
            return a
        for p, q in ((a, b), (b, a)):
            if p == "nil" and (q == "md" or isinstance(q, tuple) and q[0] in ("list", "dict")):
                return q
        self.err("a %s on one path and a %s on the other" % (a, b), node)

    def mterm(self, binds, term):
        """a list of steps and a result as one monadic term"""
        return "(" + " ".join("do %s <- %s ;;" % ("_" if b.var.startswith("u") else b.var, b.term) for b in binds) \
            + (" " if binds else "") + "ret %s)" % term

    def ex_IfExp(self, e, env, binds):
        """a if c else b: the test first, then ONLY the chosen arm (an arm with a step becomes an `if` at the monad level)"""
        c = self.cond(e.test, env, binds)
        if c in ("true", "false"):
            return self.ex(e.body if c == "true" else e.orelse, self.narrow(e.test, env, c == "true"), binds)
        b1, b2 = [], []
        t1, ty1 = self.ex(e.body, self.with_fact(self.narrow(e.test, env, True), c, True), b1)
        t2, ty2 = self.ex(e.orelse, self.with_fact(self.narrow(e.test, env, False), c, False), b2)
        ty = self.join_ty(ty1, ty2, e)
        if isinstance(ty, tuple) and ty[0] in ("alias", "iter"):
            self.err("conditional expression over a %s" % (ty,), e)
        if not b1 and not b2:
            if t1 == t2:
                return (t1, ty)
            return ("(if %s then %s else %s)" % (c, t1, t2), ty)
        v = self.bind(binds, "(if %s then %s else %s)" % (c, self.mterm(b1, t1), self.mterm(b2, t2)),
                      any(b.effect for b in b1 + b2))
        return (v, ty)

    def ex_ListComp(self, e, env, binds):
        gens = e.generators
        # [m for ml in L if ml for m in ml]: the empty ones are skipped first
        if len(gens) == 2 and len(gens[0].ifs) == 1 and not gens[1].ifs and isinstance(gens[0].ifs[0], ast.Name) \
                and isinstance(gens[0].target, ast.Name) and gens[0].ifs[0].id == gens[0].target.id \
                and isinstance(e.elt, ast.Name) and isinstance(gens[1].target, ast.Name) and e.elt.id == gens[1].target.id \
                and isinstance(gens[1].iter, ast.Name) and gens[1].iter.id == gens[0].target.id:
            tl, tyl = self.ex(gens[0].iter, env, binds)
            if tyl == MDS:
                return ("(flatten_md (filter truthy_md %s))" % tl, "md")
            self.err("flattening comprehension over a %s" % (tyl,), e)
        if any(g.ifs or g.is_async for g in gens):
            self.err("comprehension with a condition", e)
        # [m for ml in L for m in ml]  -> concatenation
        if len(gens) == 2 and isinstance(e.elt, ast.Name) and isinstance(gens[1].target, ast.Name) \
                and e.elt.id == gens[1].target.id and isinstance(gens[0].target, ast.Name) \
                and isinstance(gens[1].iter, ast.Name) and gens[1].iter.id == gens[0].target.id:
            tl, tyl = self.ex(gens[0].iter, env, binds)
            if tyl == MDS:
                return ("(flatten_md %s)" % tl, "md")
            if tyl == ("list", ("opt", "md")):
                return (self.bind(binds, "lift (flatten_optmd %s)" % tl, True), "md")
            self.err("flattening comprehension over a %s" % (tyl,), e)
        # [f(v) for v in L]
        if len(gens) == 1 and isinstance(gens[0].target, ast.Name):
            tl, tyl = self.ex(gens[0].iter, env, binds)
            if not (isinstance(tyl, tuple) and tyl[0] == "list"):
                self.err("comprehension over a %s" % (tyl,), e)
            var = gens[0].target.id
            inner = []
            env2 = dict(env)
            env2[var] = (var, tyl[1])
            tb, tyb = self.ex(e.elt, env2, inner)
            if not inner:
                return ("(map (fun %s => %s) %s)" % (var, tb, tl), ("list", tyb))
            # the element expression may raise: exactly one fallible step `lift (f ..)` is supported
            if len(inner) == 1 and inner[0].term.startswith("lift ") and tb == inner[0].var:
                body = inner[0].term[len("lift "):]
                v = self.bind(binds, "lift (map_opt (fun %s => %s) %s)" % (var, body, tl), True)
                return (v, ("list", tyb))
            body = " ".join("do %s <- %s ;;" % (b.var, b.term) for b in inner) + " ret %s" % tb
            if any(b.term.startswith(("wr", "emit", "retain_refs", "release_refs")) for b in inner):
                self.err("comprehension body has an effect: %s" % ast.unparse(e.elt), e)
            v = self.bind(binds, "mapM (fun %s => %s) %s" % (var, body, tl), True)
            return (v, ("list", tyb))
        self.err("comprehension %s" % ast.unparse(e), e)

    def ex_Call(self, e, env, binds):
        f = e.func
        # ---- builtins -------------------------------------------------------------------------------------------
        if isinstance(f, ast.Name):
            if f.id == "isinstance" and len(e.args) == 2:
                return self.isinstance_(e, env, binds)
            if f.id == "len" and len(e.args) == 1 and not e.keywords:
                t, ty = self.ex(e.args[0], env, binds)
                if ty == ("list", "bool"):
                    self.err("len of a set that the model keeps as one flag per upstream (only its truth value is known)", e)
                if isinstance(ty, tuple) and ty[0] in ("list", "dict") or ty == "md":
                    return ("(length %s)" % t, "nat")
                self.err("len of a %s" % (ty,), e)
            if f.id == "tuple" and len(e.args) == 1 and not e.keywords:
                t, ty = self.ex(e.args[0], env, binds)
                if ty == VALS:
                    return ("(VTup %s)" % t, "val")
                self.err("tuple() of a %s" % (ty,), e)
            if f.id == "list" and len(e.args) == 1 and not e.keywords:
                t, ty = self.ex(e.args[0], env, binds)
                if ty == "md" or (isinstance(ty, tuple) and ty[0] == "list"):
                    return (t, ty)           # a copy
                self.err("list() of a %s" % (ty,), e)
            if f.id == "all" and len(e.args) == 1 and not e.keywords:
                t, ty = self.ex(e.args[0], env, binds)
                if isinstance(ty, tuple) and ty[0] == "list" and isinstance(ty[1], tuple) and ty[1][0] == "list":
                    return ("(forallb truthy_list %s)" % t, "bool")
                self.err("all() of a %s" % (ty,), e)
            if f.id == "chain" and len(e.args) == 1 and not e.keywords:
                # itertools.chain(x) of one argument: an iterator over x (a non-iterable raises before any effect)
                t, ty = self.ex(e.args[0], env, binds)
                if ty != "val":
                    self.err("chain() of a %s" % (ty,), e)
                return (self.bind(binds, "lift (items %s)" % t, True), ("iter", "val"))
            if f.id == "callable" and len(e.args) == 1:
                name = self.self_attr(e.args[0])
                if name is not None and self.attr(name, e).kind in ("func", "optfunc"):
                    self.assume("callable(self.%s) is True (the model takes a function there)" % name)
                    return ("true", "bool")
            self.err("call of %s" % f.id, e)
        if ast.unparse(f) == "__builtins__['zip']" and len(e.args) == 1 and isinstance(e.args[0], ast.Starred) and not e.keywords:
            t, ty = self.ex(e.args[0].value, env, binds)
            if ty != PAIRS:
                self.err("zip(*..) of a %s" % (ty,), e)
            return ("(unzip_pairs %s)" % t, ("pair", ("tuple", "val"), MDS))
        if not isinstance(f, ast.Attribute):
            self.err("call %s" % ast.unparse(e), e)
        # ---- self.<something>(...) ------------------------------------------------------------------------------
        name = self.self_attr(f)
        if name is not None:
            if name == "_emit":
                return self.emit_(e, env, binds)
            if name in ("_retain_refs", "_release_refs"):
                if len(e.args) != 1 or e.keywords:
                    self.err("%s with a count" % name, e)
                t, ty = self.ex(e.args[0], env, binds)
                if ty == ("opt", "md"):            # an entry of self.metadata: iterating None raises
                    t, ty = self.bind(binds, "lift %s" % t, True), "md"
                if ty == "nil":                    # the literal []: retaining / releasing nothing
                    t, ty = "[]", "md"
                if ty != "md":
                    self.err("%s of a %s" % (name, ty), e)
                self.bind(binds, "%s %s" % ("retain_refs" if name == "_retain_refs" else "release_refs", t), True, "u")
                return ("tt", "unit")
            a = self.sc["attrs"].get(name)
            if a is not None and a.kind in ("func", "optfunc"):
                return self.user_call(name, a, e, env, binds)
            if name in self.sc.get("modelled_helpers", {}):
                coqf, argtys, retty, text = self.sc["modelled_helpers"][name]
                self.assume(text)
                if len(e.args) != len(argtys) or e.keywords:
                    self.err("call of self.%s" % name, e)
                terms = []
                for a1, want in zip(e.args, argtys):
                    t1, ty1 = self.ex(a1, env, binds)
                    if ty1 != want:
                        self.err("self.%s(<%s>), expected %s" % (name, ty1, want), e)
                    terms.append(t1)
                return ("(%s)" % coqf.format(*terms), retty)
            if name in self.sc.get("helpers", {}):
                return self.helper_call(name, e, env, binds)
            self.err("call of self.%s" % name, e)
        # ---- self.<attr>.<method>(...) / <alias>.<method>(...) --------------------------------------------------
        owner = self.self_attr(f.value)
        if owner is not None and owner in self.sc["attrs"] and self.sc["attrs"][owner].kind == "outside_obj":
            self.assume("self.%s.%s(..): %s" % (owner, f.attr, self.sc["attrs"][owner].const))
            return ("tt", "aw")
        if owner == "upstreams" and f.attr == "index" and len(e.args) == 1 and isinstance(e.args[0], ast.Name) \
                and e.args[0].id == "who" and not e.keywords:
            return (env["who"][0], "nat")          # the position of the calling upstream = the port of the model
        if owner is not None:
            return self.container_call(owner, f.attr, e.args, env, binds, e, e.keywords)
        if isinstance(f.value, ast.Name) and f.value.id in env and isinstance(env[f.value.id][1], tuple) \
                and env[f.value.id][1][0] == "alias":
            return self.alias_call(env[f.value.id], f.attr, e.args, env, binds, e)
        # self.<dict of containers>[k].<method>(..): the same as through a local that names the entry
        if isinstance(f.value, ast.Subscript) and self.self_attr(f.value.value) is not None \
                and (self.self_attr(f.value.value), "alias") in self.sc.get("ops", {}) and not e.keywords:
            owner = self.self_attr(f.value.value)
            op = self.sc["ops"][(owner, "alias")]
            tk, tyk = self.ex(f.value.slice, env, binds)
            if [tyk] != op.args:
                self.err("key of self.%s is a %s" % (owner, tyk), e)
            if (owner, "touch") in self.sc["ops"]:          # defaultdict: reading a missing key creates the entry
                self.stateful = True
                self.bind(binds, "wr (%s %s)" % (self.opname(owner, "touch"), tk), True, "u")
            return self.alias_call(((owner, tk), ("alias", op.ret)), f.attr, e.args, env, binds, e)
        self.err("call %s" % ast.unparse(e), e)

    def isinstance_(self, e, env, binds):
        a, b = e.args
        bsrc = ast.unparse(b)
        if isinstance(a, ast.Name) and a.id == "metadata" and bsrc == "list" and env.get("metadata", (None, None))[1] == "md":
            self.assume("isinstance(metadata, list) is True (Stream._emit always passes a list)")
            return ("true", "bool")
        name = self.self_attr(a)
        if name is not None and name in self.sc.get("isinstance_const", {}) and self.sc["isinstance_const"][name][0] == bsrc:
            self.assume(self.sc["isinstance_const"][name][2])
            return (self.sc["isinstance_const"][name][1], "bool")
        if name is not None:
            at = self.attr(name, e)
            if at.kind == "union" and bsrc == at.variants["test"]:
                return ("(%s %s)" % (at.variants["is"], at.coq or name), "bool")
            if at.kind == "const_isinstance" and bsrc == at.variants["test"]:
                self.assume(at.variants["text"])
                return (at.variants["value"], "bool")
        self.err("isinstance test %s" % ast.unparse(e), e)

    def emit_(self, e, env, binds):
        args = list(e.args)
        kws = {k.arg: k.value for k in e.keywords}
        if len(args) == 2 and not kws:
            xv, mv = args
        elif len(args) == 1 and set(kws) == {"metadata"}:
            xv, mv = args[0], kws["metadata"]
        elif len(args) == 1 and not kws:
            xv, mv = args[0], None
        else:
            self.err("_emit call shape %s" % ast.unparse(e), e)
        tx, tyx = self.ex(xv, env, binds)
        tx = self.as_val(tx, tyx, binds, xv)
        if mv is None:
            tm = "[]"
        else:
            tm, tym = self.ex(mv, env, binds)
            if tym != "md":
                self.err("_emit metadata is a %s" % (tym,), e)
        v = self.bind(binds, "emit %s %s" % (tx, tm), True, "r")
        return (v, "aw")

    def user_call(self, name, a, e, env, binds):
        """self.func(a, b, *self.args, **self.kwargs): the extra arguments are part of the model's function symbol"""
        pos = []
        for arg in e.args:
            if isinstance(arg, ast.Starred):
                inner = self.self_attr(arg.value)
                if inner is not None and inner in a.absorbed:
                    self.assume("self.%s(.., *self.%s): the extra arguments are part of the model's function" % (name, inner))
                    continue
                if a.star:
                    t, ty = self.ex(arg.value, env, binds)
                    t = self.as_val(t, ty, binds, arg)
                    pos.append(self.bind(binds, "lift (star %s)" % t, True))
                    continue
                self.err("starred argument %s" % ast.unparse(arg), e)
            t, ty = self.ex(arg, env, binds)
            pos.append(self.as_val(t, ty, binds, arg))
        for k in e.keywords:
            inner = self.self_attr(k.value)
            if k.arg is None and inner is not None and inner in a.absorbed:
                self.assume("self.%s(.., **self.%s): the keyword arguments are part of the model's function" % (name, inner))
                continue
            self.err("keyword argument in call of self.%s" % name, e)
        if len(pos) != a.arity:
            self.err("self.%s called with %d arguments, the model's function takes %d" % (name, len(pos), a.arity), e)
        coqf = a.coq or name
        if a.kind == "optfunc":            # an optional function argument; calling None raises
            v = self.bind(binds, "call (opt_callf %s %s)" % (coqf, " ".join(pos)), True)
            return (v, a.ret[1])
        if a.ret[0] == "total":
            return ("(%s %s)" % (coqf, " ".join(pos)), a.ret[1])
        v = self.bind(binds, "call (%s %s)" % (coqf, " ".join(pos)), True)
        return (v, a.ret[1])

    def container_call(self, owner, meth, args, env, binds, node, keywords=()):
        ops = self.sc.get("ops", {})
        op = ops.get((owner, meth))
        if op is None:
            self.err("self.%s.%s is not a known method of that attribute" % (owner, meth), node)
        if keywords:
            self.err("keyword arguments to self.%s.%s" % (owner, meth), node)
        if len(args) != len(op.args):
            self.err("self.%s.%s called with %d arguments" % (owner, meth, len(args)), node)
        terms = []
        for arg, want in zip(args, op.args):
            if want == "lit_none":
                if ast.unparse(arg) != "None":
                    self.err("self.%s.%s: default must be None" % (owner, meth), node)
                continue
            if want == "lit_0":
                if ast.unparse(arg) != "0":
                    self.err("self.%s.%s: position must be 0" % (owner, meth), node)
                continue
            t, ty = self.ex(arg, env, binds)
            if ty == "nil" and isinstance(want, tuple) and want[0] == "list":
                ty = want
            if ty != want:
                self.err("self.%s.%s: argument is a %s, expected %s" % (owner, meth, ty, want), node)
            terms.append(t)
        terms = list(op.pre) + terms
        call = "%s%s" % (self.opname(owner, meth), "".join(" " + t for t in terms))
        if op.mode == "pure":
            return ("(%s)" % call, op.ret)
        if op.mode == "rd":
            return (self.bind(binds, "rd (%s)" % call, False), op.ret)
        self.stateful = True
        if op.mode == "wr":
            self.bind(binds, "wr (%s)" % call, True, "u")
            return ("tt", "unit")
        if op.mode == "wr_get":
            return (self.bind(binds, "wr_get (%s)" % call, True), op.ret)
        self.err("bad op mode", node)

    # ---- statements ------------------------------------------------------------------------------------------------
    def emit_binds(self, binds, ind):
        return ["%sdo %s <- %s ;;" % (ind, "_" if b.var.startswith("u") else b.var, b.term) for b in binds]

    def src(self, s, ind):
        first = ast.unparse(s).split("\n")[0]
        return "%s(* %s *)" % (ind, cq(first))

    def go(self, stmts, env, ind):
        """translate the statement list (which already includes the continuation of the enclosing blocks)"""
        if not stmts:
            if self.tails:
                return [ind + self.tails[-1](env)]
            return [ind + "ret tt"]
        s, rest = stmts[0], stmts[1:]
        m = getattr(self, "st_" + type(s).__name__, None)
        if m is None:
            self.err("statement form %s not translatable: %s" % (type(s).__name__, ast.unparse(s).split("\n")[0]), s)
        return m(s, rest, env, ind)

    def st_FunctionDef(self, s, rest, env, ind):
        """a local helper defined inside the method (a closure over the method's locals): inlined where it is called
        as a statement"""
        a = s.args
        if s.decorator_list or a.defaults or a.kw_defaults or a.vararg or a.kwarg or a.kwonlyargs or a.posonlyargs:
            self.err("local function %s: only plain positional parameters are supported" % s.name, s)
        for n in ast.walk(s):
            if isinstance(n, (ast.Return, ast.Nonlocal, ast.Global, ast.Yield, ast.YieldFrom, ast.Await)) \
                    or (isinstance(n, (ast.FunctionDef, ast.Lambda)) and n is not s):
                self.err("local function %s contains %s" % (s.name, type(n).__name__), s)
        if not hasattr(self, "local_defs"):
            self.local_defs = {}
        self.local_defs[s.name] = s
        return [self.src(s, ind).split("\n")[0]] + self.go(rest, env, ind)

    def inline_local(self, call, rest, env, ind, node):
        fn = self.local_defs[call.func.id]
        name = "<local> " + fn.name
        if name in self.inlining:
            self.err("recursive local function %s" % fn.name, node)
        params = [a.arg for a in fn.args.args]
        if len(call.args) != len(params) or call.keywords:
            self.err("call of local function %s" % fn.name, node)
        binds = []
        env2 = dict(env)                    # a closure reads the enclosing locals as they are at the time of the call
        for p_, a_ in zip(params, call.args):
            env2[p_] = self.ex(a_, env, binds)
        for n in ast.walk(fn):
            # a plain assignment inside the closure creates a local of the closure; shadowing an enclosing name would
            # need care, so it is refused
            if isinstance(n, (ast.Assign, ast.AugAssign, ast.For)):
                tg = n.targets if isinstance(n, ast.Assign) else [n.target]
                for t in tg:
                    for nm in ast.walk(t):
                        if isinstance(nm, ast.Name) and nm.id in env and nm.id not in params:
                            self.err("local function %s assigns the enclosing name %s" % (fn.name, nm.id), node)
        out = [self.src(node, ind)] + self.emit_binds(binds, ind)
        out.append("%s(* ---- inlined: local def %s(%s) *)" % (ind, fn.name, ", ".join(params)))
        self.inlining.append(name)
        marker = ast.Pass()
        marker._end_inline = (fn.name, env)
        res = out + self.go(list(fn.body) + [marker] + rest, env2, ind)
        self.inlining.pop()
        return res

    def st_Pass(self, s, rest, env, ind):
        if hasattr(s, "_end_inline"):
            name, saved = s._end_inline
            # back in the caller: its locals again; aliases of containers are dropped (the helper may have rebound them)
            env = {k: v for k, v in saved.items() if not (isinstance(v[1], tuple) and v[1][0] == "alias")}
            return ["%s(* ---- end of %s *)" % (ind, name)] + self.go(rest, env, ind)
        return self.go(rest, env, ind)

    def st_Expr(self, s, rest, env, ind):
        v = s.value
        if isinstance(v, ast.Constant) and isinstance(v.value, str):
            return self.go(rest, env, ind)           # docstring
        if isinstance(v, ast.Yield):
            if not self.sc.get("coroutine"):
                self.err("yield in a class that is not a coroutine in the model", s)
            v = v.value
        if isinstance(v, ast.Call) and self.self_attr(v.func) in self.sc.get("helpers", {}):
            return self.inline_helper(v, rest, env, ind, s)
        if isinstance(v, ast.Call) and isinstance(v.func, ast.Name) and v.func.id in getattr(self, "local_defs", {}):
            return self.inline_local(v, rest, env, ind, s)
        if isinstance(v, ast.Call) and isinstance(v.func, ast.Attribute) and isinstance(v.func.value, ast.Name) \
                and v.func.value.id in env and env[v.func.value.id][1] in ("aw", "nil") and v.func.attr in ("extend", "append"):
            # L.extend(self._emit(..)) on the list of awaitables that is returned: only the argument matters
            binds = []
            t, ty = self.ex(v.args[0], env, binds)
            if ty != "aw":
                self.err("a %s is added to the list of awaitables" % (ty,), s)
            return [self.src(s, ind)] + self.emit_binds(binds, ind) + self.go(rest, env, ind)
        binds = []
        t, ty = self.ex(v, env, binds)
        if not binds and ty == "aw":
            return [self.src(s, ind), "%s(* outside the model: no step *)" % ind] + self.go(rest, env, ind)
        if not binds:
            self.err("statement without effect: %s" % ast.unparse(s), s)
        return [self.src(s, ind)] + self.emit_binds(binds, ind) + self.go(rest, env, ind)

    def st_Return(self, s, rest, env, ind):
        out = [self.src(s, ind)]
        if self.tails:
            self.err("return inside a loop", s)
        if s.value is not None and isinstance(s.value, ast.Call) and self.self_attr(s.value.func) is not None \
                and self.sc.get("helpers", {}).get(self.self_attr(s.value.func)) == "tail":
            return self.inline_helper(s.value, [], env, ind, s, tail=True)
        if s.value is not None:
            binds = []
            t, ty = self.ex(s.value, env, binds)
            if ty not in ("aw", "nil", "unit") and t != "VNone":
                self.err("return of a %s" % (ty,), s)
            out += self.emit_binds(binds, ind)
        return out + [ind + "ret tt"]

    def st_Delete(self, s, rest, env, ind):
        """del self.<list>[k:]"""
        if len(s.targets) != 1:
            self.err("del of several targets", s)
        tg = s.targets[0]
        owner = self.self_attr(tg.value) if isinstance(tg, ast.Subscript) else None
        if owner is None or not isinstance(tg.slice, ast.Slice) or tg.slice.lower is None or tg.slice.upper is not None \
                or tg.slice.step is not None:
            self.err("del statement %s" % ast.unparse(s), s)
        binds = []
        self.container_call(owner, "delfrom", [tg.slice.lower], env, binds, s)
        return [self.src(s, ind)] + self.emit_binds(binds, ind) + self.go(rest, env, ind)

    def assigned_names(self, stmts):
        res = []
        for st in stmts:
            for n in ast.walk(st):
                if isinstance(n, ast.Name) and isinstance(n.ctx, ast.Store) and n.id not in res:
                    res.append(n.id)
        return res

    def tup(self, terms):
        if not terms:
            return "tt"
        if len(terms) == 1:
            return terms[0]
        return "(%s)" % ", ".join(terms)

    def st_For(self, s, rest, env, ind):
        if s.orelse:
            self.err("for ... else", s)
        out = [self.src(s, ind)]
        # idiom: for upstream in self.upstreams: upstream._remove_downstream(self)   -- the node detaches itself
        if self.self_attr(s.iter) == "upstreams" and isinstance(s.target, ast.Name) and len(s.body) == 1 \
                and ast.unparse(s.body[0]) == "%s._remove_downstream(self)" % s.target.id:
            if not self.sc.get("detach"):
                self.err("the node removes itself from its upstreams; the model of this class has no such transition", s)
            self.stateful = True
            out.append("%s(*   %s *)" % (ind, cq(ast.unparse(s.body[0]))))
            out.append("%sdo _ <- wr %s_detach ;;" % (ind, self.cls))
            return out + self.go(rest, env, ind)
        # for v in self.<dict>.values(): v.<method>()   -- the method is applied to every value
        if isinstance(s.iter, ast.Call) and isinstance(s.iter.func, ast.Attribute) and s.iter.func.attr == "values" \
                and not s.iter.args and self.self_attr(s.iter.func.value) is not None and isinstance(s.target, ast.Name) \
                and len(s.body) == 1 and isinstance(s.body[0], ast.Expr) and isinstance(s.body[0].value, ast.Call) \
                and isinstance(s.body[0].value.func, ast.Attribute) and isinstance(s.body[0].value.func.value, ast.Name) \
                and s.body[0].value.func.value.id == s.target.id and not s.body[0].value.args:
            owner = self.self_attr(s.iter.func.value)
            meth = "each_" + s.body[0].value.func.attr
            binds = []
            self.container_call(owner, meth, [], env, binds, s)
            out.append("%s(*   %s *)" % (ind, cq(ast.unparse(s.body[0]))))
            return out + self.emit_binds(binds, ind) + self.go(rest, env, ind)
        # for v in <local iterator>: the rest of the iterator is consumed
        if isinstance(s.iter, ast.Name) and s.iter.id in env and isinstance(env[s.iter.id][1], tuple) \
                and env[s.iter.id][1][0] == "iter" and isinstance(s.target, ast.Name):
            lst, ity = env[s.iter.id]
            elem = ity[1]
            assigned = self.assigned_names(s.body)
            carried = [n for n in assigned if n in env and n != s.target.id and env[n][1] not in ("aw", "nil", "unit")]
            var = self.local(s.target.id)
            benv = dict(env)
            benv[s.target.id] = (var, elem)
            self.drop_facts(benv, var)
            for n in carried:
                benv[n] = (self.local(n), env[n][1])
                self.drop_facts(benv, self.local(n))
            tys = {n: env[n][1] for n in carried}

            def tail(e, carried=carried, tys=tys):
                for n in carried:
                    if e[n][1] != tys[n]:
                        self.err("the loop changes the type of %s" % n, s)
                return "ret %s" % self.tup([e[n][0] for n in carried])
            self.tails.append(tail)
            body = self.go(list(s.body), benv, ind + "    ")
            self.tails.pop()
            st = self.fresh("st")
            pat = self.tup([self.local(n) for n in carried])
            out.append("%sdo %s <- for_ %s %s (fun %s %s_in =>" % (ind, st, lst, self.tup([env[n][0] for n in carried]), var, st))
            out.append("%s    let %s%s := %s_in in" % (ind, "'" if len(carried) > 1 else "", pat if carried else "_", st))
            out += body
            out.append("%s  ) ;;" % ind)
            env = dict(env)
            if carried:
                out.append("%slet %s%s := %s in" % (ind, "'" if len(carried) > 1 else "", pat, st))
            for n in carried:
                env[n] = (self.local(n), tys[n])
                self.drop_facts(env, self.local(n))
            env[s.iter.id] = ("[]", ity)
            for n in assigned:
                if n not in carried and n != s.target.id and n in env and env[n][1] not in ("aw", "nil", "unit"):
                    del env[n]
            return out + self.go(rest, env, ind)
        self.err("for loop over %s" % ast.unparse(s.iter), s)

    def st_While(self, s, rest, env, ind):
        """while self.<container>: body   -- fuel: one more than the length of the container at entry"""
        if s.orelse:
            self.err("while ... else", s)
        lt = self.len_test(s.test)
        subject = lt[0] if lt is not None and lt[1] else s.test       # `while len(self.<c>) > 0` is `while self.<c>`
        name = self.self_attr(subject)
        if name is None or self.attr(name, s).kind != "field" or not isinstance(self.attr(name, s).ty, tuple):
            self.err("while loop on %s: only `while self.<container>` is supported" % ast.unparse(s.test), s)
        out = [self.src(s, ind)]
        binds = []
        c = self.cond(s.test, env, binds)
        condm = "(" + " ".join("do %s <- %s ;;" % (b.var, b.term) for b in binds) + " ret %s)" % c
        assigned = self.assigned_names(s.body)
        for n in assigned:
            if n in env and env[n][1] not in ("aw", "nil", "unit"):
                self.err("the while loop reassigns the local %s" % n, s)
        self.tails.append(lambda e: "ret tt")
        body = self.go(list(s.body), dict(env), ind + "    ")
        self.tails.pop()
        fuel = self.fresh("fuel")
        out.append("%sdo %s <- rd (fun s_ => S (length (%s s_))) ;;" % (ind, fuel, self.opname(name)))
        out.append("%sdo _ <- while_ %s %s (" % (ind, fuel, condm))
        out += body
        out.append("%s  ) ;;" % ind)
        env = {k: v for k, v in env.items() if k not in assigned or v[1] in ("aw", "nil", "unit")}
        return out + self.go(rest, env, ind)

    def st_Assign(self, s, rest, env, ind):
        if len(s.targets) != 1:
            self.err("chained assignment", s)
        tgt = s.targets[0]
        out = [self.src(s, ind)]
        binds = []
        env = dict(env)
        if isinstance(tgt, ast.Tuple):
            if isinstance(s.value, ast.Tuple) and len(s.value.elts) == len(tgt.elts):
                vals = [self.ex(v, env, binds) for v in s.value.elts]          # all right-hand sides first
                out += self.emit_binds(binds, ind)
                for t1, (term, ty) in zip(tgt.elts, vals):
                    out += self.assign_to(t1, term, ty, env, ind, s)
                return out + self.go(rest, env, ind)
            term, ty = self.ex(s.value, env, binds)
            if len(tgt.elts) == 2 and ty == "val":
                # a, b = v: v is unpacked (or raises) BEFORE any target is assigned; then the targets left to right
                p = self.bind(binds, "lift (unpack2 %s)" % term, True, "p")
                out += self.emit_binds(binds, ind)
                names = [self.local(t1.id) if isinstance(t1, ast.Name) else self.fresh("t") for t1 in tgt.elts]
                if names[0] == names[1]:
                    names[0] = self.fresh("t")
                out.append("%slet '(%s, %s) := %s in" % (ind, names[0], names[1], p))
                for c1 in names:
                    self.drop_facts(env, c1)
                for t1, c1 in zip(tgt.elts, names):
                    out += self.assign_to(t1, c1, "val", env, ind, s)
                return out + self.go(rest, env, ind)
            if len(tgt.elts) == 2 and isinstance(ty, tuple) and ty[0] == "pair":
                out += self.emit_binds(binds, ind)
                out += self.assign_to(tgt.elts[0], "(fst %s)" % term, ty[1], env, ind, s)
                out += self.assign_to(tgt.elts[1], "(snd %s)" % term, ty[2], env, ind, s)
                return out + self.go(rest, env, ind)
            self.err("tuple assignment from a %s" % (ty,), s)
        # alias of a mutable container held in a dict attribute: buffer = self._buffer[key]
        if isinstance(tgt, ast.Name) and isinstance(s.value, ast.Subscript) and self.self_attr(s.value.value) is not None \
                and (self.self_attr(s.value.value), "alias") in self.sc.get("ops", {}):
            owner = self.self_attr(s.value.value)
            tk, tyk = self.ex(s.value.slice, env, binds)
            op = self.sc["ops"][(owner, "alias")]
            if [tyk] != op.args:
                self.err("key of self.%s is a %s" % (owner, tyk), s)
            # defaultdict: reading a missing key creates the entry
            if (owner, "touch") in self.sc["ops"]:
                self.stateful = True
                self.bind(binds, "wr (%s %s)" % (self.opname(owner, "touch"), tk), True, "u")
            out += self.emit_binds(binds, ind)
            env[tgt.id] = ((owner, tk), ("alias", op.ret))
            return out + self.go(rest, env, ind)
        term, ty = self.ex(s.value, env, binds)
        out += self.emit_binds(binds, ind)
        out += self.assign_to(tgt, term, ty, env, ind, s)
        return out + self.go(rest, env, ind)

    def local(self, name):
        return name if name not in ("fun", "let", "in", "end", "match", "with", "if", "then", "else", "at", "as", "return",
                                    "emit", "call", "ret", "bind", "wr", "rd", "lift", "raise", "state", "result", "key",
                                    "x", "who", "metadata", "length", "map", "fst", "snd", "last", "items", "update") \
            else name + "_"

    def assign_to(self, tgt, term, ty, env, ind, node):
        """one assignment target; returns lines; updates env for locals"""
        if isinstance(tgt, ast.Name):
            if ty in ("nil",):
                env[tgt.id] = (term, "nil")
                return []
            if ty in ("aw", "unit"):
                env[tgt.id] = ("tt", ty)
                return []
            c = self.local(tgt.id)
            if term == "VNone":
                env[tgt.id] = (term, ty)
                return []
            if c == term:
                env[tgt.id] = (term, ty)
                return []
            env[tgt.id] = (c, ty)
            self.drop_facts(env, c)
            return ["%slet %s := %s in" % (ind, c, term)]
        name = self.self_attr(tgt)
        if name is not None:
            a = self.attr(name, node)
            if a.kind != "field":
                self.err("assignment to self.%s which is not a state attribute" % name, node)
            want = a.ty
            binds = []
            if want == "optval":
                term = self.as_val(term, ty, binds, node)
            elif ty == "nil" and (want == "md" or isinstance(want, tuple) and want[0] in ("list", "dict")):
                pass
            elif ty != want:
                self.err("self.%s = <%s>, the attribute holds a %s" % (name, ty, want), node)
            self.stateful = True
            return self.emit_binds(binds, ind) + ["%sdo _ <- wr (%s %s) ;;" % (ind, self.opname(name, "set"), term)]
        if isinstance(tgt, ast.Subscript) and self.self_attr(tgt.value) is not None:
            owner = self.self_attr(tgt.value)
            op = self.sc.get("ops", {}).get((owner, "setitem"))
            if op is None:
                self.err("item assignment to self.%s" % owner, node)
            binds = []
            tk, tyk = self.ex(tgt.slice, env, binds)
            if ty == "nil" and (isinstance(op.args[1], tuple) or op.args[1] == "md"):
                ty = op.args[1]
            if [tyk, ty] != op.args:
                self.err("self.%s[<%s>] = <%s>" % (owner, tyk, ty), node)
            # a local bound earlier to this entry (`buf = self.<owner>[key]`) names the OLD container object from now on:
            # read it out before the entry is rebound
            for name_, (term_, ty_) in list(env.items()):
                if isinstance(ty_, tuple) and ty_[0] == "alias" and term_[0] == owner:
                    if term_[1] != tk:
                        self.err("self.%s[%s] is rebound while the local %s names self.%s[%s]" % (owner, tk, name_, owner, term_[1]), node)
                    v = self.bind(binds, "rd (%s %s)" % (self.opname(owner, "getitem"), tk), False)
                    env[name_] = (v, ty_[1])
            self.stateful = True
            return self.emit_binds(binds, ind) + ["%sdo _ <- wr (%s %s %s) ;;" % (ind, self.opname(owner, "setitem"), tk, term)]
        self.err("assignment target %s" % ast.unparse(tgt), node)

    def st_AugAssign(self, s, rest, env, ind):
        name = self.self_attr(s.target)
        if name is None or self.attr(name, s).kind != "field" or self.attr(name, s).ty != "nat" or not isinstance(s.op, ast.Add):
            self.err("augmented assignment %s" % ast.unparse(s), s)
        binds = []
        cur = self.bind(binds, "rd %s" % self.opname(name), False)
        t, ty = self.ex(s.value, env, binds)
        if ty != "nat":
            self.err("+= of a %s" % (ty,), s)
        self.stateful = True
        return [self.src(s, ind)] + self.emit_binds(binds, ind) + \
               ["%sdo _ <- wr (%s (%s + %s)) ;;" % (ind, self.opname(name, "set"), cur, t)] + self.go(rest, env, ind)

    def narrow(self, test, env, positive):
        """flow typing after `isinstance(self.<union attribute>, T)`"""
        env = dict(env)
        if isinstance(test, ast.Call) and isinstance(test.func, ast.Name) and test.func.id == "isinstance":
            name = self.self_attr(test.args[0])
            if name is not None:
                a = self.attr(name)
                if a.kind == "union":
                    term, ty = a.variants["yes" if positive else "no"]
                    env["self." + name] = ("(%s %s)" % (term, a.coq or name), ty)
        return env

    def outside_guard(self, test):
        """`if` whose test has a positive conjunct `self.<arg> is not None` for an argument the model fixes to None"""
        conj = test.values if isinstance(test, ast.BoolOp) and isinstance(test.op, ast.And) else [test]
        for c in conj:
            if isinstance(c, ast.Compare) and len(c.ops) == 1 and isinstance(c.ops[0], ast.IsNot) \
                    and ast.unparse(c.comparators[0]) == "None":
                name = self.self_attr(c.left)
                if name is not None and name in self.sc["attrs"] and self.sc["attrs"][name].kind == "param" \
                        and self.sc["attrs"][name].ty == "outside":
                    return name
        return None

    def st_If(self, s, rest, env, ind):
        out = [self.src(s, ind)]
        og = self.outside_guard(s.test)
        if og is not None:
            if s.orelse:
                self.err("`if` on self.%s (outside the model) has an else branch" % og, s)
            self.assume("self.%s is None: the statements under `if %s` (core.py line %d) are skipped, the model "
                        "does not cover them" % (og, ast.unparse(s.test), s.lineno))
            out.append("%s(* skipped: requires self.%s is not None, which the model excludes *)" % (ind, og))
            return out + self.go(rest, env, ind)
        binds = []
        c = self.cond(s.test, env, binds)
        out += self.emit_binds(binds, ind)
        if c == "true":
            out.append("%s(* the test is constant True under the stated assumptions *)" % ind)
            return out + self.go(list(s.body) + rest, self.narrow(s.test, env, True), ind)
        if c == "false":
            out.append("%s(* the test is constant False under the stated assumptions *)" % ind)
            return out + self.go(list(s.orelse) + rest, self.narrow(s.test, env, False), ind)
        seq = self.sequential_if(s, c, env, ind)
        if seq is not None:
            lines, env2 = seq
            return out + lines + self.go(rest, env2, ind)
        out.append("%sif %s then (" % (ind, c))
        out += self.go(list(s.body) + rest, self.with_fact(self.narrow(s.test, env, True), c, True), ind + "  ")
        out.append("%s) else (" % ind)
        if s.orelse:
            out.append("%s  (* else: *)" % ind)
        out += self.go(list(s.orelse) + rest, self.with_fact(self.narrow(s.test, env, False), c, False), ind + "  ")
        out.append("%s)" % ind)
        return out

    def sequential_if(self, s, c, env, ind):
        """An `if` without return whose branches (re)bind no local that holds data is one step; the statements after it
        are not duplicated into its branches."""
        if any(isinstance(n, ast.Return) for n in ast.walk(s)):
            return None
        ends = []

        def tail(e):
            ends.append(e)
            return "ret tt"
        self.tails.append(tail)
        try:
            b1 = self.go(list(s.body), self.with_fact(self.narrow(s.test, env, True), c, True), ind + "    ")
            b2 = self.go(list(s.orelse), self.with_fact(self.narrow(s.test, env, False), c, False), ind + "    ")
        finally:
            self.tails.pop()
        env2 = dict(env)
        names = self.assigned_names(list(s.body) + list(s.orelse))
        for e in ends:
            for n in names:
                if n in e and e[n][1] not in ("aw", "nil", "unit"):
                    return None              # a data local is (re)bound in a branch: duplicate the continuation instead
            for k, v in e.items():
                if k.startswith("self.") or k.startswith("?"):
                    continue
                if v[1] in ("aw", "nil", "unit"):
                    if k in env2 and env2[k][1] not in ("aw", "nil", "unit") and env2[k][0] != "VNone":
                        return None
                    env2[k] = v
                elif k not in env or env[k] != v:
                    return None              # a data local is bound in a branch: duplicate the continuation instead
        lines = ["%sdo _ <- (if %s then (" % (ind, c)] + b1 + ["%s  ) else (" % ind] + b2 + ["%s  )) ;;" % ind]
        return lines, env2

    def st_Try(self, s, rest, env, ind):
        """try: ... except Exception as e: logger.exception(e); raise [else: ...]  -- transparent"""
        if s.finalbody or len(s.handlers) != 1:
            self.err("try statement shape", s)
        h = s.handlers[0]
        if h.type is not None and ast.unparse(h.type) == "StopIteration":
            return self.try_next(s, h, rest, env, ind)
        if h.type is None or ast.unparse(h.type) != "Exception":
            self.err("handler for %s" % (ast.unparse(h.type) if h.type else "everything"), s)
        body = [ast.unparse(x) for x in h.body]
        if len(body) != 2 or body[1] != "raise" or not body[0].startswith("logger.exception("):
            self.err("exception handler is not `logger.exception(e); raise` but %s" % "; ".join(body), s)
        out = ["%s(* try: ... except Exception as e: logger.exception(e); raise   (the exception propagates) *)" % ind]
        return out + self.go(list(s.body) + list(s.orelse) + rest, env, ind)

    def try_next(self, s, h, rest, env, ind):
        """try: v = next(it) except StopIteration: <handler>"""
        b = s.body
        ok = len(b) == 1 and isinstance(b[0], ast.Assign) and len(b[0].targets) == 1 and isinstance(b[0].targets[0], ast.Name) \
            and isinstance(b[0].value, ast.Call) and isinstance(b[0].value.func, ast.Name) and b[0].value.func.id == "next" \
            and len(b[0].value.args) == 1 and isinstance(b[0].value.args[0], ast.Name) and not b[0].value.keywords
        if not ok or h.name is not None:
            self.err("try/except StopIteration around something else than `v = next(it)`", s)
        it = b[0].value.args[0].id
        if it not in env or not (isinstance(env[it][1], tuple) and env[it][1][0] == "iter"):
            self.err("next() of %s which is not an iterator" % it, s)
        lst, ity = env[it]
        hd, tl = self.fresh("h"), self.fresh("t")
        out = ["%s(* try: %s except StopIteration: ... *)" % (ind, cq(ast.unparse(b[0]))),
               "%smatch %s with" % (ind, lst), "%s| [] =>" % ind, "%s  (* except StopIteration: *)" % ind]
        out += self.go(list(h.body) + rest, env, ind + "  ")
        out.append("%s| %s :: %s =>" % (ind, hd, tl))
        env2 = dict(env)
        env2[b[0].targets[0].id] = (hd, ity[1])
        env2[it] = (tl, ity)
        out += self.go(list(s.orelse) + rest, env2, ind + "  ")
        out.append("%send" % ind)
        return out

    # ---- helpers (other methods of the class called from update): inlined -------------------------------------------
    def inline_helper(self, call, rest, env, ind, node, tail=False):
        name = self.self_attr(call.func)
        if name in self.inlining:
            self.err("recursive helper %s" % name, node)
        fn = find_func(self.classdef, name)
        spec = self.sc["helpers"][name]
        if spec != ("tail" if tail else "stmt"):
            self.err("helper %s is used as a statement" % name, node)
        params = [a.arg for a in fn.args.args][1:]
        if len(call.args) != len(params) or call.keywords:
            self.err("call of helper %s" % name, node)
        binds = []
        env2 = {k: v for k, v in env.items() if k in ("x", "who", "metadata")}
        env2 = {}
        for p, a in zip(params, call.args):
            env2[p] = self.ex(a, env, binds)
        out = [self.src(node, ind)] + self.emit_binds(binds, ind)
        out.append("%s(* ---- inlined: def %s(%s) *)" % (ind, name, ", ".join(["self"] + params)))
        if self.sc.get("coroutine") and not any(ast.unparse(d) == "gen.coroutine" for d in fn.decorator_list) \
                and any(isinstance(n, ast.Yield) for n in ast.walk(fn)):
            self.err("helper %s yields but is not a gen.coroutine" % name, node)
        # the helper must not return early (its continuation is the caller's)
        body = [b for b in fn.body]
        for n in ast.walk(fn):
            if isinstance(n, ast.Return) and not tail:
                self.err("helper %s has a return statement" % name, node)
        self.inlining.append(name)
        marker = ast.Pass()
        marker._end_inline = (name, env)
        if tail:            # `return self.helper()`: the helper's return is the caller's
            res = out + self.go(body, env2, ind)
            self.inlining.pop()
            return res
        res = out + self.go(body + [marker] + rest, env2, ind)
        self.inlining.pop()
        return res

    def helper_call(self, name, e, env, binds):
        """helper used as an expression: `if c: return e` ... `return e`; inlined as a monadic term"""
        spec = self.sc["helpers"][name]
        if spec != "expr":
            self.err("helper %s is used as an expression" % name, e)
        fn = find_func(self.classdef, name)
        params = [a.arg for a in fn.args.args][1:]
        if len(e.args) != len(params) or e.keywords or fn.decorator_list:
            self.err("call of helper %s" % name, e)
        env2 = {}
        for p, a in zip(params, e.args):
            env2[p] = self.ex(a, env, binds)
        body = [b for b in fn.body if not (isinstance(b, ast.Expr) and isinstance(b.value, ast.Constant))]
        term, ty = self.mbody(body, env2, fn)
        v = self.bind(binds, "(* %s *) %s" % (cq(ast.unparse(e)), term), True)
        return (v, ty)

    def mbody(self, stmts, env, fn):
        if not stmts:
            self.err("helper %s falls off its end" % fn.name, fn)
        s = stmts[0]
        if isinstance(s, ast.Return) and s.value is not None:
            binds = []
            t, ty = self.ex(s.value, env, binds)
            return "(" + " ".join("do %s <- %s ;;" % (b.var, b.term) for b in binds) + " ret %s)" % t, ty
        if isinstance(s, ast.If):
            binds = []
            c = self.cond(s.test, env, binds)
            t1 = t2 = None
            if c != "false":
                t1, ty1 = self.mbody(list(s.body) + stmts[1:], self.with_fact(self.narrow(s.test, env, True), c, True), fn)
            if c != "true":
                t2, ty2 = self.mbody(list(s.orelse) + stmts[1:], self.with_fact(self.narrow(s.test, env, False), c, False), fn)
            pre = " ".join("do %s <- %s ;;" % (b.var, b.term) for b in binds)
            if c == "true":
                return "(%s %s)" % (pre, t1), ty1
            if c == "false":
                return "(%s %s)" % (pre, t2), ty2
            if ty1 != ty2:
                self.err("helper %s returns a %s or a %s" % (fn.name, ty1, ty2), s)
            return "(%s if %s then %s else %s)" % (pre, c, t1, t2), ty1
        self.err("helper %s: statement %s" % (fn.name, ast.unparse(s).split("\n")[0]), s)

    # ---- a whole method ---------------------------------------------------------------------------------------------
    def method(self_, *a):
        raise NotImplementedError

    def translate(self, method, defname, args):
        """args: list of (python name, coq name, type) of the method's arguments after self"""
        self.method = method
        self.method_pure = False
        fn = find_func(self.classdef, method)
        got = [a.arg for a in fn.args.args]
        want = ["self"] + [a[0] for a in args]
        if got != want or fn.args.vararg or fn.args.kwarg or fn.args.kwonlyargs:
            self.err("signature is (%s), expected (%s)" % (", ".join(got), ", ".join(want)))
        deco = [ast.unparse(d) for d in fn.decorator_list]
        coroutine = "gen.coroutine" in deco
        if [d for d in deco if d != "gen.coroutine"]:
            self.err("decorators %s" % deco)
        if coroutine != bool(self.sc.get("coroutine")) and method == "update":
            self.err("update is %sa gen.coroutine, the model says the opposite" % ("" if coroutine else "not "))
        env = {a[0]: (a[1], a[2]) for a in args}
        self.stateful = False
        body = self.go(list(fn.body), env, "  ")
        ps = "".join(" (%s : %s)" % (n, t) for n, t in self.sc["params"])
        ar = "".join(" (%s : %s)" % (a[1], coq_ty(a[2])) for a in args)
        lines = ["(* %s.%s, core.py line %d *)" % (self.cls, method, fn.lineno),
                 "Definition %s%s%s : M %s unit :=" % (defname, ps, ar, self.sc["state"])]
        lines += body
        lines[-1] += "."
        return lines, self.stateful, coroutine


UPDATE_ARGS = [("x", "x", "val"), ("who", "who", "nat"), ("metadata", "metadata", "md")]

HEADER = """(* GENERATED by harness/gen_nodes.py from the source under test on every run - do not edit *)
From Coq Require Import List ZArith Bool Arith.
From SZ Require Import Base.Values Sync.Nodes Base.MiniPy.
Import ListNotations.
Close Scope Z_scope.
Open Scope nat_scope.
Open Scope py_scope.
"""


def gen_class(core, cls, schema):
    tr = NodeTr(core, cls, schema)
    lines, stateful, coroutine = tr.translate("update", "gen_body_%s" % cls, UPDATE_ARGS)
    pnames = " ".join(n for n, _ in schema["params"])
    ps = "".join(" (%s : %s)" % (n, t) for n, t in schema["params"])
    out = [HEADER] + lines + [""]
    load = schema.get("load")
    start = "(%s s)" % load if load else "s"
    store = schema["store"]
    out += ["Definition gen_run_%s%s (s : nstate) (p : nat) (x : val) (m : md) : result :=" % (cls, ps),
            "  finish %s %s (gen_body_%s %s x p m %s)." % (store, "true" if stateful else "false", cls, pnames, start),
            "Definition gen_update_%s%s (s : nstate) (p : nat) (x : val) (m : md) : option (list action) :=" % (cls, ps),
            "  to_option (gen_run_%s %s s p x m)." % (cls, pnames),
            "Definition gen_is_coroutine_%s : bool := %s." % (cls, "true" if coroutine else "false"), ""]
    for extra, args, callargs in schema.get("extra_methods", []):
        tr2 = NodeTr(core, cls, schema)
        l2, st2, _ = tr2.translate(extra, "gen_body_%s_%s" % (cls, extra), args)
        out += l2 + [""]
        out += ["Definition gen_%s_%s%s (s : nstate) : result :=" % (extra, cls, ps),
                "  finish %s %s (gen_body_%s_%s %s %s %s)." % (store, "true" if st2 else "false", cls, extra, pnames,
                                                             " ".join(callargs), start), ""]
        tr.assumptions += [a for a in tr2.assumptions if a not in tr.assumptions]
    out.append("(* assumptions made by the translator:")
    for a in tr.assumptions or ["none"]:
        out.append("   - " + cq(a))
    out.append("*)")
    return "\n".join(out) + "\n"


# ------------------------------------------------------------------------------------------------------------------
# schemas
# ------------------------------------------------------------------------------------------------------------------
SCHEMAS = {}

SCHEMAS["Stream"] = dict(
    params=[], state="nstate", store="store_id", attrs={})

SCHEMAS["union"] = dict(
    params=[], state="nstate", store="store_id", attrs={})

SCHEMAS["map"] = dict(
    params=[("func", "val -> option val")], state="nstate", store="store_id",
    attrs={"func": func(1, ("partial", "val"))})

SCHEMAS["starmap"] = dict(
    params=[("func", "list val -> option val"), ("args", "list val")], state="nstate", store="store_id",
    attrs={"func": func(1, ("partial", "val"), absorbed=("kwargs",), star=True), "args": param(VALS)})

SCHEMAS["filter"] = dict(
    params=[("predicate", "val -> option bool")], state="nstate", store="store_id",
    attrs={"predicate": func(1, ("partial", "bool"))})

SCHEMAS["accumulate"] = dict(
    params=[("func", "val -> val -> option val"), ("returns_state", "bool"), ("with_state", "bool")],
    state="nstate", store="store_id",
    attrs={"func": func(2, ("partial", "val"), absorbed=("kwargs",)), "returns_state": param("bool"),
           "with_state": param("bool"), "state": field("optval")})

SCHEMAS["pluck"] = dict(
    params=[("pick", "pick")], state="nstate", store="store_id",
    attrs={"pick": Attr("union", coq="pick", variants={"test": "list", "is": "pick_is_list",
                                                        "yes": ("pick_list", ("list", "nat")), "no": ("pick_one", "nat")})})

SCHEMAS["flatten"] = dict(
    params=[], state="nstate", store="store_id", attrs={})

# partition: _buffer / _metadata_buffer are defaultdict(list); the model keeps both per key in st_keyed.
# timeout is outside the model (None); key is an optional function (None -> everything under the key None).
SCHEMAS["partition"] = dict(
    params=[("n", "nat"), ("key", "option (val -> val)")], state="nstate", store="store_id", coroutine=True,
    attrs={"n": param("nat"), "_timeout": param("outside"),
           "_key": Attr("optfunc", arity=1, ret=("total", "val"), coq="key", absorbed=()),
           "_buffer": field(("dict", VALS)), "_metadata_buffer": field(("dict", "md"))},
    helpers={"_get_key": "expr", "_flush": "stmt"},
    ops={("_buffer", "alias"): Op(["val"], VALS, "wr"), ("_buffer", "touch"): Op(["val"], None, "wr"),
         ("_buffer", "getitem"): Op(["val"], VALS, "rd"), ("_buffer", "setitem"): Op(["val", VALS], None, "wr"),
         ("_buffer", "item_append"): Op(["val"], None, "wr"),
         ("_metadata_buffer", "alias"): Op(["val"], "md", "wr"), ("_metadata_buffer", "touch"): Op(["val"], None, "wr"),
         ("_metadata_buffer", "getitem"): Op(["val"], "md", "rd"),
         ("_metadata_buffer", "setitem"): Op(["val", "md"], None, "wr"),
         ("_metadata_buffer", "item_extend"): Op(["md"], None, "wr")})

# sliding_window: two deque(maxlen=n)
SCHEMAS["sliding_window"] = dict(
    params=[("n", "nat"), ("partial", "bool")], state="nstate", store="store_id",
    attrs={"n": param("nat"), "partial": param("bool"), "_buffer": field(VALS), "metadata_buffer": field(MDS)},
    ops={("_buffer", "append"): Op(["val"], None, "wr", pre=["n"]),
         ("metadata_buffer", "append"): Op(["md"], None, "wr", pre=["n"]),
         ("metadata_buffer", "popleft"): Op([], "md", "wr_get")})

# unique: the model covers the history kept as a list (hashable=False); see the assumption printed
SCHEMAS["unique"] = dict(
    params=[("maxsize", "option nat"), ("key", "val -> val")], state="nstate", store="store_id",
    attrs={"maxsize": param("optnat"), "key": func(1, ("total", "val"), absorbed=()),
           "seen": Attr("field", ty=VALS)},
    isinstance_const={"seen": ("list", "true", "isinstance(self.seen, list) is True: the model covers the history kept as "
                               "a list (hashable=False); the dict / LRU branch of unique.update is NOT translated")},
    ops={("seen", "contains"): Op(["val"], "bool", "rd"), ("seen", "remove"): Op(["val"], None, "wr"),
         ("seen", "insert"): Op(["lit_0", "val"], None, "wr"), ("seen", "delfrom"): Op(["optnat"], None, "wr")})

# collect: python keeps two flat deques; the python-level state keeps the metadata in the chunks it was extended by
SCHEMAS["collect"] = dict(
    params=[], state="collect_st", store="(collect_store s)", load="collect_load",
    attrs={"cache": field(VALS), "metadata_cache": field("md")},
    ops={("cache", "append"): Op(["val"], None, "wr"), ("metadata_cache", "extend"): Op(["md"], None, "wr"),
         ("cache", "clear"): Op([], None, "wr"), ("metadata_cache", "clear"): Op([], None, "wr")},
    extra_methods=[("flush", [("_", "unused_", "val")], ["VNone"])])

# slice: self.state counts the elements seen; _check_end removes the node from its upstreams
SCHEMAS["slice"] = dict(
    params=[("star", "nat"), ("stop", "option nat"), ("step", "nat")], state="nstate", store="store_id", detach=True,
    attrs={"star": param("nat"), "end": param("optnat", coq="stop"), "step": param("nat"), "state": field("nat"),
           "upstreams": Attr("upstreams")},
    helpers={"_check_end": "stmt"})

LATEST_ATTRS = {"last": field(VALS), "metadata": field(("list", ("opt", "md"))), "missing": field(("list", "bool")),
                "upstreams": Attr("upstreams")}
LATEST_OPS = {("last", "setitem"): Op(["nat", "val"], None, "wr"),
              ("metadata", "getitem"): Op(["nat"], ("opt", "md"), "rd"),
              ("metadata", "setitem"): Op(["nat", "md"], None, "wr"),
              ("missing", "contains"): Op(["nat"], "bool", "rd"), ("missing", "remove"): Op(["nat"], None, "wr")}

SCHEMAS["combine_latest"] = dict(
    params=[("emit_on", "option (list nat)")], state="latest_st", store="(combine_latest_store s)", load="latest_load",
    attrs=dict(LATEST_ATTRS, emit_on=param("emit_on")),
    ops={**LATEST_OPS, ("emit_on", "contains"): Op(["nat"], "bool", "pure", pre=["emit_on"])})

SCHEMAS["zip_latest"] = dict(
    params=[], state="latest_st", store="(zip_latest_store s)", load="latest_load",
    attrs=dict(LATEST_ATTRS, lossless=Attr("upstream0"), lossless_buffer=field(PAIRS)),
    ops={**LATEST_OPS, ("lossless_buffer", "append"): Op([PAIR], None, "wr"),
         ("lossless_buffer", "popleft"): Op([], PAIR, "wr_get")})

# partition_unique: two dicts keyed by the key; keep is 'first' or 'last'
SCHEMAS["partition_unique"] = dict(
    params=[("n", "nat"), ("key", "val -> val"), ("keep_last", "bool")], state="pu_st",
    store="(partition_unique_store s)", load="partition_unique_load",
    attrs={"n": param("nat"), "key": func(1, ("total", "val"), absorbed=()),
           "keep": Attr("strflag", variants={"last": "keep_last", "first": "(negb keep_last)"}),
           "_buffer": field(("dict", "val")), "_metadata_buffer": field(("dict", "md"))},
    helpers={"_get_key": "expr"},
    ops={("_buffer", "pop"): Op(["val", "lit_none"], ("opt", "val"), "wr_get"),
         ("_metadata_buffer", "pop"): Op(["val", "lit_none"], ("opt", "md"), "wr_get"),
         ("_buffer", "setitem"): Op(["val", "val"], None, "wr"),
         ("_metadata_buffer", "setitem"): Op(["val", "md"], None, "wr"),
         ("_buffer", "contains"): Op(["val"], "bool", "rd"),
         ("_buffer", "values"): Op([], VALS, "rd"), ("_metadata_buffer", "values"): Op([], MDS, "rd")})

# zip: maxsize / condition are the backpressure, modelled in Async/ZipBP.v; pack_literals is not translated
SCHEMAS["zip"] = dict(
    params=[("literals", "list (nat * val)"), ("maxsize", "nat")], state="nstate", store="store_id", ports=True,
    attrs={"literals": param(("list", ("pair", "nat", "val"))), "maxsize": param("nat"), "upstreams": Attr("upstreams"),
           "buffers": field(("list", PAIRS)),
           "condition": Attr("outside_obj", const="the condition variable implements backpressure (maxsize), which is "
                                                   "not part of the synchronous model (see Async/ZipBP.v); no step")},
    helpers={"_emit_tuple": "tail"},
    modelled_helpers={"pack_literals": ("pack_literals literals {0} 0", [("tuple", "val")], ("tuple", "val"),
                                        "self.pack_literals(tup) is NOT translated: the model's Nodes.pack_literals is used")},
    ops={("buffers", "alias"): Op(["nat"], PAIRS, "wr"), ("buffers", "getitem"): Op(["nat"], PAIRS, "rd"),
         ("buffers", "item_append"): Op([PAIR], None, "wr"), ("buffers", "values"): Op([], ("list", PAIRS), "rd"),
         ("buffers", "each_popleft"): Op([], "unit", "wr_get")})

ORDER = ["accumulate", "map", "filter", "starmap", "pluck", "union", "Stream", "flatten", "partition", "sliding_window",
         "unique", "collect", "slice", "combine_latest", "zip_latest", "partition_unique", "zip"]


def generate_all(core):
    """-> {file stem: (text or None, error or None)}"""
    res = {}
    for cls in ORDER:
        try:
            res["KN_" + cls] = (gen_class(core, cls, SCHEMAS[cls]), None)
        except KernelError as e:
            res["KN_" + cls] = (None, str(e))
    return res
