"""Confirm and evaluate a seeded change: seeded/<id>/{patch.diff, demo.py, meta.json}.
   usage: seedtest.py <id> [props to run ...]   (id like C03 or C03b)"""
import json, os, shutil, subprocess, sys, time

VERIF = os.path.dirname(os.path.dirname(os.path.abspath(__file__)))


def sh(cmd, timeout=1800):
    p = subprocess.run(cmd, shell=True, capture_output=True, text=True, timeout=timeout)
    return p.returncode, p.stdout + p.stderr


def main():
    sid = sys.argv[1]
    props = sys.argv[2:] or [sid[:3]]
    d = os.path.join(VERIF, "seeded", sid)
    src = "/tmp/seed_%s/_seed" % sid
    if not os.path.isdir(d) and os.path.isdir(src):
        shutil.copytree(src, d)
    patch = os.path.join(d, "patch.diff")
    demo = os.path.join(d, "demo.py")
    meta = json.load(open(os.path.join(d, "meta.json"))) if os.path.exists(os.path.join(d, "meta.json")) else {}
    # 1. confirm the demonstration in a fresh scratch worktree
    wt = "/tmp/confirm_%s" % sid
    sh("git -C /repo worktree remove --force %s" % wt)
    rc, out = sh("git -C /repo worktree add -q %s HEAD" % wt)
    res = {"id": sid}
    try:
        rc0, o0 = sh("cd %s && PYTHONPATH=%s timeout 120 /venv/bin/python %s" % (wt, wt, demo))
        rca, oa = sh("git -C %s apply %s" % (wt, patch))
        rc1, o1 = sh("cd %s && PYTHONPATH=%s timeout 120 /venv/bin/python %s" % (wt, wt, demo))
        res["demo_without_change_rc"] = rc0
        res["patch_applies"] = rca == 0
        res["demo_with_change_rc"] = rc1
        res["demo_with_change_tail"] = o1.strip().splitlines()[-1:] if o1.strip() else []
        if "--suite" in os.environ.get("SEEDTEST_OPTS", ""):
            rcs, os_ = sh("cd %s && timeout 1700 /venv/bin/python -m pytest -q -p no:cacheprovider --timeout=600 streamz 2>&1 | tail -1" % wt)
            res["suite_with_change"] = os_.strip()
    finally:
        sh("git -C /repo worktree remove --force %s" % wt)
    # 2. run our checks against the changed /repo
    rc, out = sh("git -C /repo status --short")
    if out.strip():
        print("REFUSING: /repo is not clean:", out)
        sys.exit(2)
    rca, oa = sh("git -C /repo apply %s" % patch)
    res["checks"] = {}
    try:
        if rca != 0:
            res["checks"]["apply-error"] = oa[-300:]
        for p in props:
            t0 = time.time()
            rc, out = sh("cd %s && bin/check %s --tier quick" % (VERIF, p), timeout=1500)
            lines = [l for l in out.splitlines() if l.startswith("VIOLATION") or l.startswith("# ")]
            res["checks"][p] = {"rc": rc, "seconds": round(time.time() - t0, 1), "lines": lines[:6]}
    finally:
        sh("git -C /repo checkout -- .")
        sh("git -C /repo clean -fdq streamz")
    # evidence files were rewritten by runs against a changed tree: restore them by re-running is the caller's job
    meta["confirmed"] = {k: v for k, v in res.items() if k != "checks"}
    meta["detected_by"] = {p: (v if isinstance(v, str) else {"rc": v["rc"], "lines": v["lines"][:3]}) for p, v in res["checks"].items()}
    json.dump(meta, open(os.path.join(d, "meta.json"), "w"), indent=1)
    print(json.dumps(res, indent=1))


if __name__ == "__main__":
    main()
