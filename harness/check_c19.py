"""C19 — one event loop per pipeline; async pipelines never leave the caller's loop.

proof:           Props/C19.v (cone: Ext/LoopPercolate*.v)
correspondence:  every enumerated construction session is run on the real streamz (inside a running loop) and the
                 observed raise/no-raise + (loop, asynchronous) of every node after every request is compared INSIDE
                 Coq with the model, for each code variant (as found / __init__ repaired / join percolation / both);
                 the tree under test must match exactly one variant on every case.
oracle:          c19_oracle.judge evaluates the property clauses on the observations (model-free);
                 fresh-process run-through probes record the thread sink callbacks run on."""
import asyncio
import json
import logging
import os
import random
import subprocess
import sys
import time
import warnings

sys.path.insert(0, os.path.dirname(os.path.abspath(__file__)))
import common

VARIANTS = ["v_found", "v_init", "v_join", "v_both"]
VARIANT_DOC = {
    "v_found": "as found (ensure_io_loop clobbers an explicit asynchronous=True; joins do not percolate)",
    "v_init": "__init__ repaired (ensure_io_loop fallback only when asynchronous is None); joins do not percolate",
    "v_join": "as-found __init__; inherited loop/mode percolated to all upstreams",
    "v_both": "__init__ repaired and inherited loop/mode percolated to all upstreams",
}
SIG_INIT = ("C19/declared-async/not-on-current-loop/source", "C19/declared-async/not-on-current-loop/ensure_io_loop-node",
            "C19/declared-async/raises/ensure_io_loop-node", "C19/declared-async/thread-started/source",
            "C19/declared-async/thread-started/ensure_io_loop-node", "C19/declared-async/sink-on-background-thread")
SIG_JOIN = ("C19/split/loop/join/inherited", "C19/split/mode/join/inherited")

LOOPC = {None: "lN", "CUR": "lC", "BG": "lB", "L1": "l1", "L2": "l2", "X": "lX", "DC": "lD"}
ASYNC = {None: "aN", True: "aT", False: "aF"}


def enc_req(st, impl):
    r = impl.request_of(st)
    return "Q [%s] %s %s %s" % ("; ".join(str(u) for u in r["ups"]), ASYNC[r["asynchronous"]], LOOPC[r["loop"]],
                                "true" if r["ensure"] else "false")


def enc_case(steps, obs, impl, client=False):
    parts = []
    for st, ob in zip(steps, obs):
        snap = "; ".join("(%s,%s)" % (LOOPC[l], ASYNC.get(a, "aN") if a in (None, True, False) else "aN") for l, a in ob["snap"])
        parts.append("(%s, %s [%s])" % (enc_req(st, impl), "ORaise" if ob["raised"] else "OOk", snap))
    return "(%s, [%s])" % ("true" if client else "false", "; ".join(parts))


def write_files(d, encoded, per=300):
    paths = []
    for k in range(0, len(encoded), per):
        p = os.path.join(d, "cases_%03d.v" % (k // per))
        with open(p, "w") as f:
            f.write("From Coq Require Import List.\nFrom SZ Require Import Ext.LoopPercolate Ext.LoopPercolateCases.\n"
                    "Import ListNotations.\n"
                    "(* a session run while a dask default client exists is judged against the same variant with has_client *)\n"
                    "Definition lD := Some ClientLoop.\n"
                    "Definition wc (c : cfg) : cfg := mkCfg (fix_init c) (fix_join c) true.\n"
                    "Fixpoint mm (v : cfg) (k : nat) (l : list (bool * case)) : list nat :=\n"
                    "  match l with [] => [] | (cl, cs) :: r =>\n"
                    "    if agree (if cl then wc v else v) [] cs then mm v (S k) r else k :: mm v (S k) r end.\n"
                    "Definition cases : list (bool * case) := [\n")
            f.write(";\n".join(encoded[k:k + per]))
            f.write("].\n")
            for v in VARIANTS:
                f.write("Eval vm_compute in (mm %s 0 cases).\n" % v)
        paths.append(p)
    return paths


def parse_all(out):
    import re
    res = []
    for m in re.finditer(r"=\s*(\[[^\]]*\]|nil)\s*:\s*list\s+nat", out, re.S):
        body = m.group(1)
        res.append([] if body == "nil" else [int(x) for x in re.findall(r"\d+", body)])
    return res


def run_sessions(cases):
    """run all sessions on the real code inside one running loop"""
    import c19_impl as impl
    results = []

    async def main():
        for c in cases:
            try:
                ran, obs = impl.run_case(c)
                results.append((c, ran, obs, None))
            except Exception as e:   # driver problem
                results.append((c, [], [], "%s: %s" % (type(e).__name__, e)))
    # the cb coroutines some nodes start on the caller's loop run once when the loop winds down and log
    # errors about the dummy pipelines; nothing in this check relies on logging
    logging.disable(logging.CRITICAL)
    with warnings.catch_warnings():
        warnings.simplefilter("ignore")
        asyncio.run(main())
    return results


PROBES = [
    {"kind": "from_iterable", "asynchronous": True}, {"kind": "from_periodic", "asynchronous": True},
    {"kind": "from_iterable", "asynchronous": None},
    {"kind": "buffer", "asynchronous": None, "root_async": True}, {"kind": "timed_window", "asynchronous": None, "root_async": True},
    {"kind": "delay", "asynchronous": None, "root_async": True}, {"kind": "rate_limit", "asynchronous": None, "root_async": True},
    {"kind": "latest", "asynchronous": None, "root_async": True}, {"kind": "partition", "asynchronous": None, "root_async": True},
    {"kind": "map_async", "asynchronous": None, "root_async": True},
    {"kind": "timed_window_unique", "asynchronous": None, "root_async": True},
    {"kind": "buffer", "asynchronous": None, "root_async": None}, {"kind": "timed_window", "asynchronous": None, "root_async": None},
]


for _mid in ["map", "map_async", "buffer", "delay", "rate_limit", "latest", "partition", "timed_window", "timed_window_unique"]:
    for _a in (None, True):
        for _via in ("last", "source"):
            if _via == "source" and _mid not in ("map_async", "buffer"):
                continue
            PROBES.append({"kind": "chain", "mid": _mid, "asynchronous": _a, "start_via": _via})


def run_probes():
    here = os.path.dirname(os.path.abspath(__file__))
    procs = []
    for cfg in PROBES:
        procs.append((cfg, subprocess.Popen(["timeout", "60", sys.executable, "-u", os.path.join(here, "c19_probe.py"), json.dumps(cfg)],
                                            stdout=subprocess.PIPE, stderr=subprocess.DEVNULL, text=True)))
    res = []
    for cfg, p in procs:
        out, _ = p.communicate()
        try:
            res.append(json.loads(out.strip().splitlines()[-1]))
        except Exception:
            res.append({"cfg": cfg, "error": "probe produced no result (rc=%s)" % p.returncode})
    return res


def judge_probe(r):
    """declared/inherited asynchronous -> sink on the caller's thread, no thread started; otherwise background"""
    cfg = r["cfg"]
    declared = cfg.get("asynchronous") is True or cfg.get("root_async") is True
    if r.get("error"):
        return [("C19/probe-error/%s" % cfg["kind"], "run-through probe %s failed: %s" % (cfg, r["error"]))]
    out = []
    if cfg["kind"] == "chain":
        want_main = declared
        fm = r.get("func_on_main_thread") or []
        bad = (not r["sink_on_main_thread"] or any(v is not want_main for v in r["sink_on_main_thread"]) or any(v is not want_main for v in fm)
               or r.get("worker_on_node_loop") is False or (declared and (r["thread_started_at_construction"] or not r["loop_is_current"]))
               or (not declared and r["loop_is_current"]))
        if bad:
            out.append(("C19/run-through/chain/%s/%s" % (cfg["mid"], "declared-async" if declared else "blocking"),
                        "%s: callbacks must run on the %s: sink_on_main_thread=%s func_on_main_thread=%s worker_on_node_loop=%s loop_is_current=%s thread_started=%s"
                        % (cfg, "caller's loop" if declared else "shared background loop", r["sink_on_main_thread"], fm,
                           r.get("worker_on_node_loop"), r["loop_is_current"], r["thread_started_at_construction"])))
        return out
    if declared:
        if r["thread_started_at_construction"] or not r["loop_is_current"] or not all(r["sink_on_main_thread"]) or not r["sink_on_main_thread"]:
            sig = "C19/declared-async/sink-on-background-thread" if cfg.get("asynchronous") is True and cfg["kind"].startswith("from_") \
                else "C19/declared-async/probe/%s" % cfg["kind"]
            out.append((sig, "%s declared asynchronous: thread_started=%s loop_is_current=%s sink_on_main_thread=%s"
                        % (cfg, r["thread_started_at_construction"], r["loop_is_current"], r["sink_on_main_thread"])))
    else:
        if r["loop_is_current"] or any(r["sink_on_main_thread"]) or not r["sink_on_main_thread"] or r["asynchronous"] is not False:
            out.append(("C19/fallback/probe/%s" % cfg["kind"], "%s not declared asynchronous: loop_is_current=%s sink_on_main_thread=%s asynchronous=%s"
                        % (cfg, r["loop_is_current"], r["sink_on_main_thread"], r["asynchronous"])))
    return out


def shrink(case, sig):
    """drop requests (last first) while the oracle still reports the same signature"""
    import c19_oracle
    cur = json.loads(json.dumps(case))

    def fails(c):
        res = run_sessions([c])[0]
        if res[3]:
            return False
        f, _ = c19_oracle.judge(res[1], res[2], client=bool(c.get("client")))
        return any(s == sig for s, _, _ in f)
    changed = True
    while changed:
        changed = False
        for i in range(len(cur["steps"]) - 1, -1, -1):
            if any(i in s["ups"] for s in cur["steps"][i + 1:]):
                continue
            c2 = json.loads(json.dumps(cur))
            del c2["steps"][i]
            for s in c2["steps"][i:]:
                s["ups"] = [u - 1 if u > i else u for u in s["ups"]]
            if c2["steps"] and fails(c2):
                cur = c2
                changed = True
                break
    return cur


def run(prop, tier, seed, replay=None):
    import c19_impl as impl
    import c19_gen
    import c19_oracle
    out = common.Outcome(prop, tier, seed)
    proof = common.props_check(prop)
    rng = random.Random(seed * 1000003 + 19)
    if replay:
        rp = json.load(open(replay))["replay"]
        cases = [rp["case"]] if "case" in rp else []
    else:
        cases = c19_gen.all_cases(tier, rng)
    known = common.known_signatures(prop)
    t0 = time.time()
    results = run_sessions(cases)
    t_impl = time.time() - t0
    # ---- oracle
    hist_kind, hist_len, hist_layer = {}, {}, {}
    info_tot = {}
    found = {}        # signature -> (message, case, step)
    nraise = nok = 0
    distinct = set()
    good = []
    for c, ran, obs, err in results:
        if err:
            out.violation("C19/harness-crash", "driver crashed: %s" % err, {"case": c}, no_input=True)
            continue
        good.append((c, ran, obs))
        for st, ob in zip(ran, obs):
            hist_kind[st["kind"]] = hist_kind.get(st["kind"], 0) + 1
            nraise += ob["raised"]
            nok += not ob["raised"]
        hist_len[len(ran)] = hist_len.get(len(ran), 0) + 1
        hist_layer[c.get("layer", "?")] = hist_layer.get(c.get("layer", "?"), 0) + 1
        if len(ran) >= 2 or any(s["asynchronous"] is not None or s["loop"] is not None for s in ran):
            distinct.add(json.dumps(ran, sort_keys=True))
        f, info = c19_oracle.judge(ran, obs, client=bool(c.get("client")))
        for k_, v_ in info.items():
            info_tot[k_] = info_tot.get(k_, 0) + v_
        for sig, msg, k in f:
            if sig not in found or len(ran) < len(found[sig][1]["steps"]):
                found[sig] = (msg, dict({"steps": ran}, **({"client": True} if c.get("client") else {})), k)
    probes = [] if replay else run_probes()
    for r in probes:
        for sig, msg in judge_probe(r):
            found.setdefault(sig, (msg, None, None))
    oracle_sigs = set(found)
    for sig, (msg, case, k) in sorted(found.items()):
        if sig in known:
            out.known_finding(sig, known[sig]["what"])
        elif case is None:
            out.violation(sig, msg, {"probe": [r for r in probes if any(s == sig for s, _ in judge_probe(r))][:1]})
        else:
            small = shrink(case, sig)
            out.violation(sig, msg, {"case": small, "failing_request_index_in_original": k})
    # ---- correspondence
    d = common.scratch(prop)
    encoded = [enc_case(ran, obs, impl, client=bool(c_.get("client"))) for c_, ran, obs in good]
    paths = write_files(d, encoded)
    t1 = time.time()
    res = common.run_case_files(paths)
    t_coq = time.time() - t1
    mism = {v: [] for v in VARIANTS}
    coq_errors = []
    for fi, p in enumerate(paths):
        rc, txt = res[p]
        lists = parse_all(txt)
        if rc != 0 or len(lists) != len(VARIANTS):
            coq_errors.append((p, txt[-600:]))
            continue
        for v, l in zip(VARIANTS, lists):
            mism[v].extend(fi * 300 + i for i in l)
    matching = [v for v in VARIANTS if not mism[v]] if not coq_errors else []
    variant = matching[0] if matching else None
    for p, txt in coq_errors:
        out.violation("C19/correspondence-error", "coqc failed on generated cases: %s" % txt, {"file": p}, no_input=True)
    if not coq_errors and variant is None and not out.violations:
        best = min(VARIANTS, key=lambda v: len(mism[v]))
        i = mism[best][0]
        c, ran, obs = good[i]
        out.violation("C19/correspondence/model-differs",
                      "the real construction logic matches none of the modelled variants; closest is %s (%s) with %d of %d sessions differing; no oracle violation on those observations"
                      % (best, VARIANT_DOC[best], len(mism[best]), len(good)),
                      {"case": {"steps": ran}, "observed": obs, "correspondence": "Ext.LoopPercolateCases.agree " + best,
                       "mismatching_cases": mism[best][:20], "theorems_at_stake": ["C19_one_loop", "C19_declared_async_on_current"]},
                      no_input=True)
    if variant is not None and not replay:
        # the variant decided by the model must agree with what the oracle saw
        init_fixed = variant in ("v_init", "v_both")
        join_fixed = variant in ("v_join", "v_both")
        if init_fixed and oracle_sigs & set(SIG_INIT):
            out.violation("C19/variant-inconsistent/init", "model says __init__ is repaired but the oracle reports %s" % sorted(oracle_sigs & set(SIG_INIT)), {}, no_input=True)
        if not init_fixed and not oracle_sigs & set(SIG_INIT):
            out.violation("C19/variant-inconsistent/init", "model says __init__ is as found but the oracle saw no declared-async violation (witness of declared_async_on_current_refuted did not replay)", {}, no_input=True)
        if join_fixed and oracle_sigs & set(SIG_JOIN):
            out.violation("C19/variant-inconsistent/join", "model says joins percolate but the oracle reports %s" % sorted(oracle_sigs & set(SIG_JOIN)), {}, no_input=True)
        if not join_fixed and not oracle_sigs & set(SIG_JOIN):
            out.violation("C19/variant-inconsistent/join", "model says joins do not percolate but the oracle saw no split pipeline (witness of one_loop_join_refuted did not replay)", {}, no_input=True)
    if not proof["ok"]:
        out.violation("%s/proof/%s" % (prop, proof["failing"]), "proof obligation no longer checks: %s" % proof["failing"],
                      {"theorem_or_file": proof["failing"], "log": proof["log"][-3000:]}, no_input=True)
    cov = {
        "evaluations": len(good),
        "requests_executed": nok + nraise, "requests_raising": nraise,
        "distinct_nontrivial": len(distinct),
        "rule": "A: every node/source class x every asynchronous/loop keyword combination x 8 parent pipelines (joins: 8 pairs, both orders); "
                "B: all sessions of 2 requests and a 1/7 slice of restricted 3-request sessions (thorough: all 3-request sessions) over Stream/Source/flatten/buffer/union "
                "x asynchronous{None,True,False} x loop{None,L1,L2} x every attachment point; C: seeded random sessions of 3-5 requests over all classes. "
                "non-trivial = at least two requests or an explicit keyword; distinct by JSON of the executed requests",
        "traces_validated_against_impl": len(good) - (len(mism[variant]) if variant else min(len(m) for m in mism.values())),
        "disagreements_checked": 0 if variant else min(len(m) for m in mism.values()),
        "variant_matched": variant, "variant_meaning": VARIANT_DOC.get(variant),
        "mismatches_per_variant": {v: len(m) for v, m in mism.items()},
        "node_kind_histogram": hist_kind, "session_length_histogram": {str(k): v for k, v in sorted(hist_len.items())},
        "layer_histogram": hist_layer,
        "oracle_signatures_seen": sorted(oracle_sigs),
        "observations_not_judged": info_tot,
        "runthrough_probes": probes,
        "samples": [good[i][1] for i in range(0, len(good), max(1, len(good) // 3))][:3],
        "impl_seconds": round(t_impl, 2), "coq_case_seconds": round(t_coq, 2),
    }
    return out.finish(proof, cov)


if __name__ == "__main__":
    import argparse
    ap = argparse.ArgumentParser()
    ap.add_argument("prop", nargs="?", default="C19")
    ap.add_argument("--tier", default=common.tier_from_env())
    ap.add_argument("--replay")
    a = ap.parse_args()
    sys.exit(run(a.prop, a.tier, common.seed_from_env(), a.replay))
