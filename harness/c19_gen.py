"""C19 case enumeration.  Three layers (all deterministic; only layer C uses the seeded PRNG):

A  kind coverage: every node/source class x every (asynchronous, loop) keyword combination it accepts x a set of
   representative parent pipelines (fresh, async, blocking, explicit-loop, source, chain, with a sibling branch).
B  shape-exhaustive: ALL sessions of <= 2 requests (quick; <= 3 thorough) over representative classes
   (Stream / Source roots, flatten / buffer children, union joins) x asynchronous in {None,True,False}
   x loop in {None,L1,L2} x every attachment point (incl. two-upstream joins in both orders and x.union(x)).
C  seeded random sessions of 3-5 requests over ALL classes, loops incl. the caller's loop passed explicitly."""
import itertools

import c19_impl as impl

ASYNC = [None, True, False]
LOOPS3 = [None, "L1", "L2"]
LOOPS4 = [None, "L1", "L2", "CUR"]


def st(kind, ups=(), a=None, l=None):
    return {"kind": kind, "ups": list(ups), "asynchronous": a, "loop": l}


def kwcombos(kind, loops):
    if not impl.KINDS[kind]["kw"]:
        return [(None, None)]
    return [(a, l) for a in ASYNC for l in loops]


# (name, requests creating the parent pipeline, index of the node the new node is attached to)
PARENTS = [
    ("fresh", [st("Stream")], 0),
    ("async", [st("Stream", a=True)], 0),
    ("blocking", [st("Stream", a=False)], 0),
    ("loopL1", [st("Stream", l="L1")], 0),
    ("source", [st("Source")], 0),
    ("chain", [st("Stream"), st("map", [0])], 1),
    ("branch", [st("Stream"), st("map", [0]), st("buffer", [0])], 1),   # sibling branch already has a loop
    ("blocking-child", [st("Stream", a=False), st("map", [0])], 1),
]


def layer_a():
    cases = []
    for kind, info in impl.KINDS.items():
        if info["arity"] == 0:
            for a, l in kwcombos(kind, LOOPS4):
                cases.append({"steps": [st(kind, [], a, l)], "layer": "A"})
        elif info["arity"] == 1:
            for pname, pre, at in PARENTS:
                for a, l in kwcombos(kind, LOOPS4):
                    cases.append({"steps": pre + [st(kind, [at], a, l)], "layer": "A"})
        else:
            pres = [
                [st("Stream"), st("Stream")],
                [st("Stream", a=True), st("Stream", a=False)],
                [st("Stream", a=False), st("Stream", a=True)],
                [st("Stream"), st("Stream"), st("partition", [1])],           # the loop-less upstream joined later
                [st("Stream", l="L1"), st("Stream", l="L2")],
                [st("Stream"), st("Stream", a=True)],
                [st("Stream", l="L1"), st("Stream")],
                [st("Source"), st("Source", a=True)],
            ]
            for pre in pres:
                n = len(pre)
                pairs = [(0, n - 1), (n - 1, 0)]
                for (x, y) in pairs:
                    for a, l in kwcombos(kind, LOOPS3):
                        cases.append({"steps": pre + [st(kind, [x, y], a, l)], "layer": "A"})
    return cases


ROOTS_B = ["Stream", "Source"]
UNARY_B = ["flatten", "buffer"]
JOIN_B = "union"


def options_b(n_existing):
    """all requests possible when n_existing nodes exist (upper bound: earlier steps may have raised,
    the driver clamps nothing — we enumerate per actual count below)"""
    opts = []
    for k in ROOTS_B:
        for a in ASYNC:
            for l in LOOPS3:
                opts.append(st(k, [], a, l))
    for u in range(n_existing):
        for k in UNARY_B:
            for a in ASYNC:
                for l in LOOPS3:
                    opts.append(st(k, [u], a, l))
    for x in range(n_existing):
        for y in range(n_existing):
            for a in ASYNC:
                for l in LOOPS3:
                    opts.append(st(JOIN_B, [x, y], a, l))
    return opts


def layer_b(depth, third_filter=None):
    """Sessions where every prefix request refers to nodes 0..k-1 assuming earlier requests succeeded.
    A request referring to a node that does not exist because an earlier one raised is dropped by `sanitize`."""
    cases = []

    def rec(prefix, d):
        if prefix:
            cases.append({"steps": list(prefix), "layer": "B"})
        if d == 0:
            return
        for o in options_b(len(prefix)):
            if third_filter and len(prefix) >= 2 and not third_filter(o):
                continue
            rec(prefix + [o], d - 1)
    rec([], depth)
    # only maximal sessions are needed (prefixes are observed step by step), keep those of full depth
    return [c for c in cases if len(c["steps"]) == depth]


def layer_c(rng, n, maxlen=5):
    kinds = list(impl.KINDS)
    cases = []
    for _ in range(n):
        steps = []
        ln = rng.randint(3, maxlen)
        for i in range(ln):
            cand = [k for k in kinds if impl.KINDS[k]["arity"] == 0 or i >= 1]
            # bias towards attaching (pipelines, not forests)
            if i >= 1 and rng.random() < 0.75:
                cand = [k for k in cand if impl.KINDS[k]["arity"] >= 1]
            k = rng.choice(cand)
            info = impl.KINDS[k]
            if info["arity"] == 0:
                ups = []
            elif info["arity"] == 1:
                ups = [rng.randrange(i)]
            else:
                ups = [rng.randrange(i) for _ in range(rng.choice([2, 2, 3]))]
            a = l = None
            if info["kw"]:
                a = rng.choice([None, None, True, False])
                l = rng.choice([None, None, None, "L1", "L2", "CUR"])
            steps.append(st(k, ups, a, l))
        cases.append({"steps": steps, "layer": "C"})
    return cases


def all_cases(tier, rng):
    cases = layer_a()
    if tier == "quick":
        cases += layer_b(2)
        # depth 3 with the third request restricted to keyword-free or single-keyword requests on L1
        cases += layer_b(3, third_filter=lambda o: (o["loop"] in (None, "L1")) and not (o["asynchronous"] is not None and o["loop"] is not None))[::7]
        cases += layer_c(rng, 600)
    else:
        cases += layer_b(2)
        cases += layer_b(3)
        cases += layer_c(rng, 20000, maxlen=6)
    # layer D: the same sessions while a (blocking) dask Client is the process-wide default client: all of layer A
    # and a sample of the others
    extra = [dict(c, client=True, layer="D") for c in cases if c.get("layer") == "A"]
    others = [c for c in cases if c.get("layer") != "A"]
    k = max(1, len(others) // (300 if tier == "quick" else 3000))
    extra += [dict(c, client=True, layer="D") for c in others[::k]]
    return cases + extra
