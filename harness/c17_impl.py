"""C17: run the REAL streamz.sources.from_textfile / filenames on a case, deterministically.

No wall-clock: the source is created (never started) inside a running asyncio loop with loop=IOLoop.current(),
poll_interval=0, and its `_run()` coroutine is awaited once per step, after the step's writes to a real temp file /
directory.  Observations: what reached a sink during each poll, and the source's final buffer / seen set."""
import asyncio
import os
import shutil
import tempfile


def _streamz():
    from streamz import Stream
    from tornado.ioloop import IOLoop
    return Stream, IOLoop


async def _run_tf(case, d, idx):
    Stream, IOLoop = _streamz()
    path = os.path.join(d, "f%d.txt" % idx)
    with open(path, "w", newline="") as f:
        f.write(case["pre"])
    src = Stream.from_textfile(path, poll_interval=0, delimiter=case["delim"], from_end=case["from_end"],
                               loop=IOLoop.current(), asynchronous=True)
    got = []
    snk = src.sink(got.append)
    polls = []
    try:
        for ch in case["chunks"]:
            if ch:
                with open(path, "a", newline="") as f:
                    f.write(ch)
            n0 = len(got)
            await src._run()
            polls.append(list(got[n0:]))
        return {"polls": polls, "buffer": src.buffer}
    finally:
        try:
            src.file.close()
        except Exception:
            pass
        snk.destroy()
        os.unlink(path)


async def _run_io(case, d, idx):
    Stream, IOLoop = _streamz()
    path = os.path.join(d, "g%d.txt" % idx)
    open(path, "wb").close()
    src = Stream.from_textfile(path, poll_interval=0, delimiter=case["delim"], loop=IOLoop.current(), asynchronous=True)
    got = []
    snk = src.sink(got.append)
    polls = []
    exc = None
    try:
        for h in case["chunks_hex"]:
            with open(path, "ab") as f:
                f.write(bytes.fromhex(h))
            n0 = len(got)
            try:
                await src._run()
            except Exception as e:      # observed, judged by the oracle
                exc = type(e).__name__
            polls.append(list(got[n0:]))
        return {"polls": polls, "buffer": src.buffer, "exception": exc}
    finally:
        try:
            src.file.close()
        except Exception:
            pass
        snk.destroy()
        os.unlink(path)


async def _run_fn(case, d, idx):
    Stream, IOLoop = _streamz()
    sub = os.path.join(d, "dir%d" % idx)
    os.mkdir(sub)
    # alternate between the two documented ways of naming the directory
    pattern = sub if idx % 2 == 0 else os.path.join(sub, "*")
    src = Stream.filenames(pattern, poll_interval=0, loop=IOLoop.current(), asynchronous=True)
    got = []
    snk = src.sink(got.append)
    polls = []
    try:
        for ops in case["steps"]:
            for op, nm in ops:
                p = os.path.join(sub, nm)
                if op == "c":
                    open(p, "w").close()
                elif os.path.exists(p):
                    os.unlink(p)
            n0 = len(got)
            await src._run()
            polls.append([_strip(x, sub) for x in got[n0:]])
        return {"polls": polls, "seen": sorted(_strip(x, sub) for x in src.seen)}
    finally:
        snk.destroy()
        shutil.rmtree(sub, ignore_errors=True)


def _strip(path, sub):
    pre = sub + os.sep
    return path[len(pre):] if isinstance(path, str) and path.startswith(pre) else "?" + repr(path)


def _run_sp(case):
    return {"parts": case["text"].split(case["delim"])}


async def _run_all(cases, d):
    out = []
    for i, c in enumerate(cases):
        try:
            if c["kind"] == "tf":
                o = await _run_tf(c, d, i)
            elif c["kind"] == "fn":
                o = await _run_fn(c, d, i)
            elif c["kind"] == "io":
                o = await _run_io(c, d, i)
            else:
                o = _run_sp(c)
        except Exception as e:
            o = {"crash": "%s: %s" % (type(e).__name__, e)}
        out.append(o)
    return out


def run_cases(cases):
    """returns one observation dict per case (same order)"""
    d = tempfile.mkdtemp(prefix="c17_")
    try:
        return asyncio.run(_run_all(cases, d))
    finally:
        shutil.rmtree(d, ignore_errors=True)
