"""C17: case generators and the Coq text encoder.

Case kinds (plain JSON):
  tf : {"kind": "tf", "delim": str, "from_end": bool, "pre": str, "chunks": [str, ...]}
       file holds `pre` when the source is created; then for each chunk: append it (possibly ""), poll once.
  fn : {"kind": "fn", "steps": [[["c"|"d", name], ...], ...]}   per step: apply the ops (create/delete), poll once.
  io : {"kind": "io", "delim": str, "chunks_hex": [hex, ...]}    raw bytes appended (CR / CRLF / UTF-8 cut by polls).
  sp : {"kind": "sp", "delim": str, "text": str}                 str.split against py_split (no source involved).
"""
import itertools


# ---------------------------------------------------------------------------- compositions
def compositions(s):
    """all 2^(n-1) ways of cutting s into non-empty consecutive chunks ([""] -> [[]])"""
    n = len(s)
    if n == 0:
        yield []
        return
    for mask in range(1 << (n - 1)):
        out, start = [], 0
        for i in range(n - 1):
            if mask >> i & 1:
                out.append(s[start:i + 1])
                start = i + 1
        out.append(s[start:])
        yield out


def random_cuts(rng, s, p=None):
    if p is None:
        p = rng.choice([0.15, 0.3, 0.5, 0.8])
    out, cur = [], ""
    for ch in s:
        cur += ch
        if rng.random() < p:
            out.append(cur)
            cur = ""
    if cur:
        out.append(cur)
    return out


def insert_empties(rng, chunks, p=0.3):
    out = []
    for c in chunks:
        while rng.random() < p:
            out.append("")
        out.append(c)
    while rng.random() < p:
        out.append("")
    return out


def alphabet_for(delim):
    a = sorted(set(delim))
    if len(a) == 1:
        a.append("x" if "x" not in a else "y")
    return a


QUICK_DELIMS = ["|", "||", "aa", "ab", "aba", "|a|"]
MORE_DELIMS = ["\n", "aab", "a|", "|||", "abab"[:3], "bab", ",", "a"]


def tf_exhaustive(delims, maxlen, rng, empties_every=3):
    """every text up to maxlen over the delimiter's own alphabet (+1 char), every composition"""
    k = 0
    for d in delims:
        alpha = alphabet_for(d)
        for n in range(0, maxlen + 1):
            for tup in itertools.product(alpha, repeat=n):
                text = "".join(tup)
                for comp in compositions(text):
                    k += 1
                    chunks = comp if comp else [""]
                    if k % empties_every == 0:
                        chunks = insert_empties(rng, chunks)
                    yield {"kind": "tf", "delim": d, "from_end": False, "pre": "", "chunks": chunks}


def tf_from_end_exhaustive(delims, maxpre, maxlen, rng):
    """pre-existing content (incl. ending inside a delimiter) x from_end on/off x all compositions of short texts"""
    for d in delims:
        alpha = alphabet_for(d)
        pres = ["".join(t) for n in range(0, maxpre + 1) for t in itertools.product(alpha, repeat=n)]
        for pre in pres:
            for n in range(0, maxlen + 1):
                for tup in itertools.product(alpha, repeat=n):
                    text = "".join(tup)
                    for comp in compositions(text):
                        for fe in (False, True):
                            chunks = comp if comp else [""]
                            if rng.random() < 0.25:
                                chunks = insert_empties(rng, chunks)
                            yield {"kind": "tf", "delim": d, "from_end": fe, "pre": pre, "chunks": chunks}


def tf_random(rng, n, maxlen):
    for _ in range(n):
        base = rng.choice(["ab", "a|", "ab|", "|x", "a\n", "ab\n,"])
        dl = rng.choice([1, 1, 2, 2, 3, 3])
        d = "".join(rng.choice(base) for _ in range(dl))
        alpha = sorted(set(d)) + ([rng.choice(base)] if rng.random() < 0.7 else [])
        if rng.random() < 0.3:
            alpha.append(rng.choice("xyz \"'\\"))
        # bias towards delimiter characters so partial / overlapping occurrences are frequent
        weights = [3 if c in d else 1 for c in alpha]
        L = rng.randint(0, maxlen)
        text = "".join(rng.choices(alpha, weights)[0] for _ in range(L))
        if rng.random() < 0.3 and L:
            # plant whole delimiters
            pos = rng.randrange(L)
            text = text[:pos] + d * rng.randint(1, 3) + text[pos:]
        pre = "".join(rng.choices(alpha, weights)[0] for _ in range(rng.choice([0, 0, 1, 2, 5])))
        chunks = insert_empties(rng, random_cuts(rng, text), p=rng.choice([0, 0.2, 0.5]))
        if not chunks:
            chunks = [""]
        yield {"kind": "tf", "delim": d, "from_end": rng.random() < 0.4, "pre": pre, "chunks": chunks}


# characters that str.splitlines() (but not split("\n")) treats as line boundaries: they are ordinary payload
LINEBREAKISH = ["\x0b", "\x0c", "\x1c", "\x1d", "\x1e", "\x85"]


def tf_linebreakish(rng, n, maxlen):
    """the default delimiter "\n" over texts whose payload contains other line-boundary characters"""
    alpha0 = ["a", "\n", "\x0c", "\x1e"]
    for L in range(0, 4):                          # exhaustive: every text up to 3 chars, every chunking
        for tup in itertools.product(alpha0, repeat=L):
            for comp in compositions("".join(tup)):
                yield {"kind": "tf", "delim": "\n", "from_end": False, "pre": "", "chunks": comp if comp else [""]}
    for _ in range(n):
        alpha = ["a", "b", "\n", "\n"] + rng.sample(LINEBREAKISH, rng.choice([1, 2, 3]))
        text = "".join(rng.choice(alpha) for _ in range(rng.randint(0, maxlen)))
        chunks = insert_empties(rng, random_cuts(rng, text), p=rng.choice([0, 0.2])) or [""]
        yield {"kind": "tf", "delim": "\n", "from_end": False, "pre": "", "chunks": chunks}


def sp_exhaustive(delims, maxlen):
    for d in delims:
        alpha = alphabet_for(d)
        for n in range(0, maxlen + 1):
            for tup in itertools.product(alpha, repeat=n):
                yield {"kind": "sp", "delim": d, "text": "".join(tup)}


# ---------------------------------------------------------------------------- filenames
NAME_POOLS = [
    ["a", "b", "c", "d"],
    ["a10", "a9", "a", "B", "b", "Z", "_x", "a.txt"],        # code-point order differs from "natural"/case-blind order
    ["f2", "f10", "f1", "F3", "f", "f-1", "f+1", "f 1"],
    ["ab", "a", "abc", "b", "ba", "aa", "~", "0", "00"],
]


def fn_random(rng, n, maxsteps, maxnames):
    for _ in range(n):
        pool = list(rng.choice(NAME_POOLS))
        rng.shuffle(pool)
        pool = pool[:rng.randint(1, min(maxnames, len(pool)))]
        present = []
        steps = []
        for _s in range(rng.randint(1, maxsteps)):
            ops = []
            for _o in range(rng.choice([0, 1, 1, 2, 3])):
                if present and rng.random() < 0.25:
                    nm = rng.choice(present)
                    present.remove(nm)
                    ops.append(["d", nm])
                else:
                    cand = [x for x in pool if x not in present]
                    if cand:
                        nm = rng.choice(cand)
                        present.append(nm)
                        ops.append(["c", nm])
            steps.append(ops)
        yield {"kind": "fn", "steps": steps}


def fn_exhaustive(names):
    """every creation order of `names`, every placement of polls between creations (poll at the end always)"""
    for perm in itertools.permutations(names):
        for comp in compositions(list(range(len(perm)))):
            steps = [[["c", perm[i]] for i in grp] for grp in comp]
            yield {"kind": "fn", "steps": steps}


def fn_snapshots(case):
    """directory content (creation order, as the harness knows it) at each poll -- pure"""
    present, snaps = [], []
    for ops in case["steps"]:
        for op, nm in ops:
            if op == "c" and nm not in present:
                present.append(nm)
            elif op == "d" and nm in present:
                present.remove(nm)
        snaps.append(list(present))
    return snaps


# ---------------------------------------------------------------------------- io layer
def io_cases(rng, n):
    """raw byte streams with CR / CRLF / multi-byte UTF-8, delimiter "\\n", cut at every byte position"""
    fixed = [b"x\r\ny\r\n", b"\r\n", b"a\r\n\r\nb\n", "é\n".encode(), "a€b\nü\n".encode(), b"a\rb\n"]
    out = []
    for raw in fixed:
        for cut in range(0, len(raw) + 1):
            parts = [raw[:cut], raw[cut:]] if 0 < cut < len(raw) else [raw]
            out.append({"kind": "io", "delim": "\n", "chunks_hex": [p.hex() for p in parts]})
            if len(parts) == 2:
                # the same cut with an idle poll (nothing new in the file) between the two writes
                out.append({"kind": "io", "delim": "\n", "chunks_hex": [parts[0].hex(), "", parts[1].hex()]})
    for _ in range(n):
        L = rng.randint(1, 10)
        alpha = ["a", "\r", "\n", "\r\n", "b"] + (["é", "€"] if rng.random() < 0.4 else [])
        s = "".join(rng.choice(alpha) for _ in range(L)).encode()
        parts = [p.encode("latin1") for p in random_cuts(rng, s.decode("latin1"))]
        if rng.random() < 0.5:
            parts = [q for p in parts for q in ([p, b""] if rng.random() < 0.4 else [p])]   # idle polls in between
        out.append({"kind": "io", "delim": "\n", "chunks_hex": [p.hex() for p in parts]})
    return out


# ---------------------------------------------------------------------------- Coq encoding
def coq_text(s):
    if all(32 <= ord(c) <= 126 for c in s):
        return '(S "%s")' % s.replace('"', '""')
    return "(T [%s])" % ";".join(str(ord(c)) for c in s)


def coq_list(xs, f):
    return "[%s]" % ";".join(f(x) for x in xs)


COQ_HEADER = """From Coq Require Import String.
From Coq Require Import List Ascii.
From SZ Require Import Ext.TextFile Ext.Filenames.
Import ListNotations.
Open Scope string_scope.
Definition S := list_ascii_of_string.
Definition mk := Build_tf_case.
Definition mkf := Build_fn_case.
Definition mks := Build_split_case.
"""


def coq_tf(case, obs):
    return "mk %s %s %s %s %s %s" % (
        "true" if case["from_end"] else "false", coq_text(case["delim"]), coq_text(case["pre"]),
        coq_list(case["chunks"], coq_text),
        coq_list(obs["polls"], lambda l: coq_list(l, coq_text)), coq_text(obs["buffer"]))


def coq_fn(case, obs):
    return "mkf %s %s" % (coq_list(fn_snapshots(case), lambda l: coq_list(l, coq_text)),
                          coq_list(obs["polls"], lambda l: coq_list(l, coq_text)))


def coq_sp(case, obs):
    return "mks %s %s %s" % (coq_text(case["delim"]), coq_text(case["text"]), coq_list(obs["parts"], coq_text))


def coq_io(case, obs):
    """as-found text-mode model: run_chunks_textmode; observed = flat records + buffer (only when no exception)"""
    chunks = [bytes.fromhex(h).decode("latin1") for h in case["chunks_hex"]]
    recs = [r for p in obs["polls"] for r in p]
    return "(%s, %s, (%s, %s))" % (coq_text(case["delim"]), coq_list(chunks, coq_text),
                                   coq_text(obs["buffer"]), coq_list(recs, coq_text))
