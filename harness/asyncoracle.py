"""Model-free oracles for the asynchronous single-node traces produced by asyncfam.run_case.

Each function takes (case, obs) and returns a list of (prop, signature, message).  They evaluate the
property clauses directly on what the REAL code did; they do not know the Coq models.
"""
from symbols import val_from_json, keyfn
from syncoracle import freeze


class Trace:
    """Normalised view of one run."""

    def __init__(self, case, obs):
        self.case = case
        self.kind = case["node"]["k"]
        self.sp = case["node"]
        self.sync = case.get("sink") == "sync"
        self.inputs = []          # dict(eid, src, val, md, step, t)
        self.deliv = []           # dict(t, val, md, step, acked_step)
        self.done_step = {}       # eid -> step
        self.failed_step = {}
        self.fired_step = {}      # rc id -> [steps]
        self.counts = []          # per step
        self.times = []
        self.started = []         # (step, x) map_async task starts
        self.task_done = []       # (step, x)
        outstanding = []
        running = []
        prev_fired = 0
        eid = 0
        self.steps = [None] + list(case["actions"])
        for step, (act, o) in enumerate(zip(self.steps, obs)):
            self.times.append(o["now"])
            self.counts.append(list(o["counts"]))
            if act is not None:
                if act[0] == "emit":
                    self.inputs.append(dict(eid=eid, src=act[1], val=val_from_json(act[2]),
                                            md=[tuple(m) for m in act[3]], step=step, t=o["now"]))
                    eid += 1
                elif act[0] in ("burst", "seq", "chain"):
                    for vj in act[2]:
                        self.inputs.append(dict(eid=eid, src=act[1], val=val_from_json(vj), md=[], step=step, t=o["now"]))
                        eid += 1
                elif act[0] == "mix":
                    when = dict((e_, t_) for e_, t_ in o.get("emit_t", []))
                    for sa in act[2]:
                        if sa[0] == "emit":
                            self.inputs.append(dict(eid=eid, src=sa[1], val=val_from_json(sa[2]),
                                                    md=[tuple(m) for m in sa[3]], step=step, t=when.get(eid, o["now"])))
                            eid += 1
                elif act[0] in ("ack", "ackfail"):
                    if outstanding and "mixacks" not in o:      # (older recorded traces: replicate the FIFO)
                        d = outstanding.pop(0)
                        d["acked_step"] = step
                elif act[0] == "task":
                    if act[1] < len(running):
                        self.task_done.append((step, running.pop(act[1])))
            for (_e, y, t_) in o.get("reacts", []):
                # emits made by the consumer inside a hand-over of this step (after the step's own emits)
                self.inputs.append(dict(eid=eid, src=0, val=y, md=[], step=step, t=t_))
                eid += 1
            for x in o.get("started", []):
                running.append(x)
                self.started.append((step, x))
            for x in o.get("mixtasks", []):
                if x is not None and x in running:
                    running.remove(x)
                    self.task_done.append((step, x))
            for (t, x, m) in o["deliv"]:
                d = dict(t=t, val=x, md=[tuple(i) for i in m], step=step, acked_step=step if self.sync else None)
                self.deliv.append(d)
                if not self.sync:
                    outstanding.append(d)
            for didx in o.get("mixacks", []):
                if 0 <= didx < len(self.deliv):
                    d = self.deliv[didx]
                    d["acked_step"] = step
                    for j, d2 in enumerate(outstanding):
                        if d2 is d:
                            del outstanding[j]
                            break
            for didx in o.get("failacks", []):
                if 0 <= didx < len(self.deliv):
                    self.deliv[didx]["failed"] = True
            for e in o["done"]:
                self.done_step[e] = step
            for e in o["failed"]:
                self.failed_step[e] = step
            for r in o["fired"][prev_fired:]:
                self.fired_step.setdefault(r, []).append(step)
            prev_fired = len(o["fired"])
        self.final = obs[-1]
        self.drained = obs[-1]["nout"] == 0 and obs[-1]["ntasks"] == 0
        self.nsteps = len(obs)


def flat_items(kind, d):
    v = d["val"]
    if kind in ("timed_window", "timed_window_unique", "partition"):
        return list(v)
    return [v]


def expected_item(kind, inp):
    if kind == "map_async":
        return inp["val"] * 10 if isinstance(inp["val"], int) else inp["val"]
    return inp["val"]


LOSSLESS = ("buffer", "delay", "rate_limit", "map_async", "timed_window", "plain")


def check_c02(case, obs):
    """lossless order / exactly once at the sink"""
    T = Trace(case, obs)
    k = T.kind
    out = []
    sig = "C02/%s" % k
    if k in LOSSLESS or (k == "partition" and T.sp.get("key") is None):
        got = [x for d in T.deliv for x in flat_items(k, d)]
        exp = [expected_item(k, i) for i in T.inputs]
        if got != exp[:len(got)]:
            out.append(("C02", sig + "/order-or-dup", "sink received %r, producer emitted %r" % (got[:15], exp[:15])))
        elif T.drained and k not in ("partition",) and len(got) != len(exp):
            # a time window / delay may legitimately still hold elements if time did not advance far enough: the
            # drain phase of the generator advances time generously
            out.append(("C02", sig + "/loss", "after all consumers finished the sink has %d of %d elements: %r" % (len(got), len(exp), got[:15])))
        elif T.drained and k == "partition" and T.sp.get("timeout") is not None and len(got) != len(exp):
            out.append(("C02", sig + "/loss", "partition with timeout still holds %d elements after the timeout elapsed" % (len(exp) - len(got))))
        # batch membership: a batch contains only elements that arrived before it left
        if k in ("timed_window", "partition"):
            pos = 0
            for d in T.deliv:
                for _ in flat_items(k, d):
                    if pos < len(T.inputs) and T.inputs[pos]["step"] > d["step"]:
                        out.append(("C02", sig + "/batch-from-the-future", "batch delivered in step %d contains an element emitted in step %d" % (d["step"], T.inputs[pos]["step"])))
                    pos += 1
    if k == "partition" and T.sp.get("key") is not None:
        kf = keyfn(T.sp["key"])
        perkey_in, perkey_out = {}, {}
        for i in T.inputs:
            perkey_in.setdefault(freeze(kf(i["val"])), []).append(i["val"])
        for d in T.deliv:
            ks = {freeze(kf(x)) for x in d["val"]}
            if len(ks) != 1:
                out.append(("C02", sig + "/mixed-keys", "partition %r mixes keys" % (d["val"],)))
                continue
            perkey_out.setdefault(ks.pop(), []).extend(d["val"])
        for ky, got in perkey_out.items():
            if got != perkey_in.get(ky, [])[:len(got)]:
                out.append(("C02", sig + "/order-or-dup", "key %r: delivered %r of %r" % (ky, got, perkey_in.get(ky))))
    if k == "zip":
        a = [i for i in T.inputs if i["src"] == 0]
        b = [i for i in T.inputs if i["src"] == 1]
        got = [d["val"] for d in T.deliv]
        exp = [(x["val"], y["val"]) for x, y in zip(a, b)]
        if got != exp[:len(got)] or (len(got) != len(exp)):
            out.append(("C02", sig + "/pairs", "zip delivered %r, i-th of each input gives %r" % (got[:10], exp[:10])))
    if k == "timed_window_unique":
        kf = keyfn(T.sp["key"])
        last_step = 0
        pos = 0
        for d in T.deliv:
            members = [i for i in T.inputs if last_step < i["step"] <= d["step"]] if False else None
        # batches: inputs that arrived after the previous batch left and before this one left
        prev = -1
        for d in T.deliv:
            win = [i["val"] for i in T.inputs if prev < i["step"] <= d["step"] - (0 if d["step"] == 0 else 0) and i["step"] < d["step"] or (prev < i["step"] < d["step"])]
            win = [i["val"] for i in T.inputs if prev <= i["step"] < d["step"]] if prev >= 0 else [i["val"] for i in T.inputs if i["step"] < d["step"]]
            exp = []
            keys = []
            for x in win:
                ky = freeze(kf(x))
                if T.sp["keep"] == "last":
                    if ky in keys:
                        j = keys.index(ky)
                        del keys[j]
                        del exp[j]
                    keys.append(ky)
                    exp.append(x)
                elif ky not in keys:
                    keys.append(ky)
                    exp.append(x)
            if list(d["val"]) != exp:
                out.append(("C02", sig + "/window-content", "window delivered in step %d is %r, keep-%s over its arrivals %r gives %r"
                            % (d["step"], d["val"], T.sp["keep"], win, exp)))
            prev = d["step"]
    return out


def check_c03(case, obs):
    T = Trace(case, obs)
    k = T.kind
    out = []
    # (a) emit waits for directly reachable consumers (no buffering node in between): plain, and the tuple-completing emit of zip
    if k == "plain" and not T.sync:
        for i, d in zip(T.inputs, T.deliv):
            ds = T.done_step.get(i["eid"])
            if ds is not None and (d["acked_step"] is None or ds < d["acked_step"]):
                out.append(("C03", "C03/emit-early/plain", "emit %d completed in step %d, its consumer finished in step %s" % (i["eid"], ds, d["acked_step"])))
    # pass-through nodes that hand on SEVERAL elements for one arrival (flatten: the items of a list; zip_latest: one tuple
    # per held element of the lossless input when the other input delivers its first value): the emit completes only
    # when the consumers of ALL of them have finished
    if k in ("flatten", "zip_latest") and not T.sync and not any(a is not None and a[0] == "mix" for a in T.steps):
        for i in T.inputs:
            ds_ = [d for d in T.deliv if d["step"] == i["step"]]
            done = T.done_step.get(i["eid"])
            if done is not None:
                late = [d["val"] for d in ds_ if not d.get("failed") and (d["acked_step"] is None or d["acked_step"] > done)]
                if late:
                    out.append(("C03", "C03/emit-early/%s" % k, "emit %d (%r) completed in step %d although the consumers of %r, handed on for it, had not finished"
                                % (i["eid"], i["val"], done, late[:4])))
                    break
    # rate_limit only spaces elements out: it is not a buffering node, so an emit through it completes only when the
    # consumer behind it has finished that element (i-th arrival = i-th delivery)
    if k == "rate_limit" and not T.sync:
        for i, d in zip(T.inputs, T.deliv):
            ds = T.done_step.get(i["eid"])
            if ds is not None and (d["acked_step"] is None or ds < d["acked_step"]) and not d.get("failed"):
                out.append(("C03", "C03/emit-early/rate_limit", "emit %d completed in step %d, the consumer behind rate_limit finished it in step %s" % (i["eid"], ds, d["acked_step"])))
                break
    # partition without key or timeout: the emit of the element that completes a partition waits for its consumer
    if k == "partition" and not T.sync and T.sp.get("key") is None and T.sp.get("timeout") is None:
        n = T.sp["n"]
        for j, d in enumerate(T.deliv):
            last = (j + 1) * n - 1
            if last < len(T.inputs):
                e = T.inputs[last]["eid"]
                ds = T.done_step.get(e)
                if ds is not None and (d["acked_step"] is None or ds < d["acked_step"]) and not d.get("failed"):
                    out.append(("C03", "C03/emit-early/partition", "emit %d completed the partition in step %d, its consumer finished in step %s" % (e, ds, d["acked_step"])))
                    break
    # (b) bounds
    if k == "buffer":
        n = T.sp["n"]
        for step in range(T.nsteps):
            done = sum(1 for e, s in T.done_step.items() if s <= step)
            handed = sum(1 for d in T.deliv if d["step"] <= step)
            if done - handed > n:
                out.append(("C03", "C03/bound/buffer", "after step %d: %d emits accepted, %d handed on, bound %d" % (step, done, handed, n)))
                break
    if k == "map_async":
        p = T.sp["parallelism"]
        worst = 0
        for step in range(T.nsteps):
            started = sum(1 for s, _ in T.started if s <= step)
            finished = sum(1 for s, _ in T.task_done if s <= step)
            worst = max(worst, started - finished)
        if worst > p + 1:
            out.append(("C03", "C03/bound/map_async/more-than-p+1", "%d tasks in flight with parallelism %d" % (worst, p)))
        elif worst > p:
            out.append(("C03", "C03/bound/map_async/p+1", "%d tasks in flight with parallelism %d" % (worst, p)))
    if k == "zip":
        m = T.sp["maxsize"]
        for src in (0, 1):
            mine = [i for i in T.inputs if i["src"] == src]
            # discipline: at most one emit of this input pending at any time (a producer that awaits each emit)
            disciplined = True
            for step in range(T.nsteps):
                pend = sum(1 for i in mine if i["step"] <= step and T.done_step.get(i["eid"], 10 ** 9) > step)
                if pend > 1:
                    disciplined = False
            # an emit issued before the previous one of the same input had completed (by the end of an earlier
            # step) is a concurrent producer
            for a, b in zip(mine, mine[1:]):
                if T.done_step.get(a["eid"], 10 ** 9) >= b["step"]:
                    disciplined = False
            for step in range(T.nsteps):
                acc = sum(1 for i in mine if T.done_step.get(i["eid"], 10 ** 9) <= step)
                paired = sum(1 for d in T.deliv if d["step"] <= step)
                if acc - paired > m:
                    sig = "C03/bound/zip" if disciplined else "C03/bound/zip/concurrent-producers"
                    out.append(("C03", sig, "input %d: %d accepted, %d paired, maxsize %d" % (src, acc, paired, m)))
                    break
    # (c) no deadlock: when every consumer has finished, no emit is still pending
    if T.drained and k in ("zip", "zip3"):
        # an emit may legitimately wait while its input's buffer is over the bound; once the buffer is back
        # within the bound (tuples left) every waiting producer must have been released
        for src in range(3 if k == "zip3" else 2):
            mine = [i for i in T.inputs if i["src"] == src]
            buffered = len(mine) - len(T.deliv)
            pend = [i["eid"] for i in mine if i["eid"] not in T.done_step and i["eid"] not in T.failed_step]
            if pend and buffered <= T.sp["maxsize"]:
                out.append(("C03", "C03/lost-wakeup/zip", "input %d holds %d elements (maxsize %d), all consumers finished, but emits %r never completed"
                            % (src, buffered, T.sp["maxsize"], pend[:5])))
    if T.drained and k not in ("zip", "zip3"):
        pend = [i["eid"] for i in T.inputs if i["eid"] not in T.done_step and i["eid"] not in T.failed_step]
        if pend:
            out.append(("C03", "C03/lost-wakeup/%s" % k, "all consumers finished but emits %r never completed" % pend[:5]))
    return out


def _superseded(T):
    """latest: elements that were overwritten in the slot before being forwarded are dropped"""
    delivered_vals = [d["val"] for d in T.deliv]
    return delivered_vals


def check_refs(case, obs, want=("C04", "C05")):
    """C04 (never early) and C05 (balance) on the counter log."""
    T = Trace(case, obs)
    k = T.kind
    out = []
    # where is each element: map every input with a counter to the delivery carrying its id
    deliv_of = {}
    for d in T.deliv:
        for (i, r) in d["md"]:
            if r:
                deliv_of.setdefault(i, []).append(d)
    inputs_of = {}
    for inp in T.inputs:
        for (i, r) in inp["md"]:
            if r:
                inputs_of[i] = inp
    for r, inp in inputs_of.items():
        ds = deliv_of.get(r, [])
        fired = T.fired_step.get(r, [])
        if "C04" in want:
            for fs in fired:
                # still inside the node?  (not delivered by then, and not dropped by a lossy node)
                delivered_by = [d for d in ds if d["step"] <= fs]
                if not delivered_by:
                    dropped = False
                    if k == "latest":
                        later = [j for j in T.inputs if j["eid"] > inp["eid"] and j["step"] <= fs]
                        dropped = bool(later)
                    if k == "timed_window_unique":
                        dropped = True      # may be a dropped/replaced duplicate; window content is checked by C02
                    if not dropped:
                        out.append(("C04", "C04/early-callback/holder=node:%s" % k,
                                    "callback of element %r (emit %d) fired in step %d before the node had handed it on" % (inp["val"], inp["eid"], fs)))
                else:
                    unfinished = [d for d in delivered_by if d["acked_step"] is None or d["acked_step"] > fs]
                    if unfinished:
                        cls = "non-waiting-node" if k in ("plain", "zip") else k
                        out.append(("C04", "C04/early-callback/holder=sink-awaitable/%s" % cls,
                                    "callback of element %r fired in step %d while the sink handling it had not finished (finished in step %s)"
                                    % (inp["val"], fs, unfinished[0]["acked_step"])))
        if "C05" in want:
            if len(fired) > 1:
                out.append(("C05", "C05/callback-twice/%s" % k, "callback of element %r fired %d times (steps %r)" % (inp["val"], len(fired), fired)))
            if fired:
                later = [T.counts[s][r] for s in range(fired[0], T.nsteps)]
                if any(c > 0 for c in later):
                    out.append(("C05", "C05/rise-after-zero/%s" % k, "counter of element %r rose again after its callback (counts %r)" % (inp["val"], later[:8])))
    if "C05" in want:
        for step in range(T.nsteps):
            for r, c in enumerate(T.counts[step]):
                if c < 0:
                    out.append(("C05", "C05/negative/%s" % k, "counter %d is %d after step %d" % (r, c, step)))
        if T.drained:
            # everything has left (or was dropped): every counter is zero and fired once, except what a node legitimately keeps
            for r, inp in inputs_of.items():
                c = T.final["counts"][r]
                ds = deliv_of.get(r, [])
                legit = 0
                if k == "latest" and inp is T.inputs[-1]:
                    legit = 0     # the property does not list latest's slot as a legitimate holder
                if k == "partition" and not ds:
                    legit = 1     # unfilled partition (no timeout, or timeout not yet reached)
                if k == "zip" and not ds:
                    legit = 1     # unmatched element waiting for its partner
                if k in ("timed_window", "timed_window_unique", "delay", "rate_limit") and not ds and k != "timed_window_unique":
                    legit = 1 if not ds else 0
                if c != legit:
                    where = "latest-slot" if (k == "latest" and inp is T.inputs[-1]) else k
                    out.append(("C05", "C05/imbalance/%s/holders=%s" % ("high" if c > legit else "low", where),
                                "after everything finished counter of element %r is %d, legitimate holders: %d" % (inp["val"], c, legit)))
                elif legit == 0 and len(T.fired_step.get(r, [])) != 1 and inp["md"]:
                    out.append(("C05", "C05/callback-count/%s" % k, "element %r is gone but its callback fired %d times" % (inp["val"], len(T.fired_step.get(r, [])))))
    return out


def check_failed(case, obs):
    """C04, last clause: the callback is never triggered for an element whose processing raised (here: the consumer's
    awaitable failed)."""
    T = Trace(case, obs)
    out = []
    # elements for which a user function of the node itself (key function, mapped coroutine) raised
    for i in T.inputs:
        if isinstance(i["val"], int) and i["val"] in (T.sp.get("userfail") or []):
            for (r, has) in i["md"]:
                if has and T.fired_step.get(r):
                    out.append(("C04", "C04/callback-for-failed/%s/user-function" % T.kind,
                                "the node's user function raised for %r but the callback of counter %d fired (step %r)"
                                % (i["val"], r, T.fired_step[r])))
    for d in T.deliv:
        if not d.get("failed"):
            continue
        for (i, r) in d["md"]:
            if r and T.fired_step.get(i):
                cls = "non-waiting-node" if T.kind in ("plain", "zip", "zip3") else T.kind
                out.append(("C04", "C04/callback-for-failed/%s" % cls,
                            "the consumer handling %r failed (step %s) but the callback of counter %d fired (step %r)"
                            % (d["val"], d["acked_step"], i, T.fired_step[i])))
    return out


def check_c16a(case, obs):
    """C16 for a node whose own user function (key function) raises, directly behind an asynchronous emitter: the exception
    reaches the emitter (the awaitable of emit fails), the failed element never shows up downstream, its callback never fires"""
    T = Trace(case, obs)
    out = []
    bad = set(T.sp.get("userfail") or [])
    for i in T.inputs:
        if isinstance(i["val"], int) and i["val"] in bad:
            if i["eid"] not in T.failed_step:
                out.append(("C16", "C16/exception-swallowed/async/%s" % T.kind,
                            "the node's user function (key function / mapped function) raised for %r but emit %d did not fail (completed in step %s)"
                            % (i["val"], i["eid"], T.done_step.get(i["eid"]))))
            for (r, has) in i["md"]:
                if has and T.fired_step.get(r):
                    out.append(("C16", "C16/callback-for-failed/async/%s" % T.kind,
                                "the key function raised for %r but the callback of counter %d fired (step %r)" % (i["val"], r, T.fired_step[r])))
    if T.kind == "flatten":
        return check_c16_flatten(T)
    if T.kind == "map_async":
        # later elements are processed as if the failing element had not been offered: the others come out in order,
        # and (once every consumer and task has finished) all of them, and their emits complete
        good = [i for i in T.inputs if not (isinstance(i["val"], int) and i["val"] in bad)]
        got = [d["val"] for d in T.deliv]
        exp = [expected_item("map_async", i) for i in good]
        if got != exp[:len(got)]:
            out.append(("C16", "C16/later-elements-disturbed/async/map_async", "the mapped function raised at call time for %r; the sink received %r, the other elements give %r" % (sorted(bad), got[:12], exp[:12])))
        elif T.drained and len(got) != len(exp):
            out.append(("C16", "C16/later-elements-lost/async/map_async", "the mapped function raised at call time for %r; after everything finished the sink has %d of the %d other elements" % (sorted(bad), len(got), len(exp))))
        elif T.drained:
            pend = [i["eid"] for i in good if i["eid"] not in T.done_step and i["eid"] not in T.failed_step]
            if pend:
                out.append(("C16", "C16/later-emits-never-complete/async/map_async", "the mapped function raised at call time for %r; emits %r of other elements never completed although no consumer or task is pending" % (sorted(bad), pend[:6])))
        return out
    for d in T.deliv:
        if any(isinstance(x, int) and x in bad for x in flat_items(T.kind, d)):
            out.append(("C16", "C16/failed-element-delivered/async/%s" % T.kind, "batch %r contains an element whose key function raised" % (d["val"],)))
    return out


def check_c16_flatten(T):
    """flatten in front of failing asynchronous consumers: the items of an element are handed on one after the other; if
    the consumer of ANY of them fails the awaitable of that element's emit fails, otherwise it completes; every item of
    every element is handed on (a failure does not disturb the other items / later elements)"""
    out = []
    pos = 0
    for i in T.inputs:
        items = list(i["val"]) if isinstance(i["val"], list) else [i["val"]]
        ds = T.deliv[pos:pos + len(items)]
        pos += len(items)
        if [d["val"] for d in ds] != items:
            out.append(("C16", "C16/later-elements-disturbed/async/flatten", "element %r: its items were handed on as %r" % (items, [d["val"] for d in ds])))
            return out
        failed = [d["val"] for d in ds if d.get("failed")]
        pending = [d for d in ds if d["acked_step"] is None]
        if failed and not pending and i["eid"] not in T.failed_step and (T.drained or i["eid"] in T.done_step):
            out.append(("C16", "C16/exception-swallowed/async/flatten",
                        "the consumer of item(s) %r of element %r failed but emit %d %s" % (failed, items, i["eid"],
                         "completed normally (step %s)" % T.done_step[i["eid"]] if i["eid"] in T.done_step else "never failed")))
            return out
        if not failed and i["eid"] in T.failed_step:
            out.append(("C16", "C16/spurious-exception/async/flatten", "no consumer of %r failed but emit %d failed" % (items, i["eid"])))
            return out
    return out


def check_c08(case, obs):
    T = Trace(case, obs)
    k = T.kind
    out = []
    # conservation: every element in exactly one window / partition, in order (for the unique variant: the window is
    # keep-first / keep-last over what arrived since the previous window) - the same clauses C02 states for these nodes
    if k in ("timed_window", "timed_window_unique", "partition"):
        for (_, sig, msg) in check_c02(case, obs):
            out.append(("C08", sig.replace("C02/", "C08/conserve/"), msg))
    if k in ("timed_window", "timed_window_unique"):
        I = T.sp["interval"]
        # deadline: an element arriving at t leaves by t + interval + time the node was blocked by its consumer
        blocked = []      # (from_t, to_t) intervals with an unfinished consumer
        for d in T.deliv:
            end = T.times[d["acked_step"]] if d["acked_step"] is not None else T.times[-1]
            blocked.append((d["t"], end))
        pos = 0
        arrivals = list(T.inputs)
        for d in T.deliv:
            for _ in flat_items(k, d):
                pass
        # map elements to batches by order (timed_window only; unique may drop)
        if k == "timed_window":
            pos = 0
            for d in T.deliv:
                for _ in d["val"]:
                    inp = T.inputs[pos]
                    pos += 1
                    waited = d["t"] - inp["t"]
                    blk = sum(max(0, min(b, d["t"]) - max(a, inp["t"])) for a, b in blocked if a < d["t"])
                    if waited > I + blk:
                        out.append(("C08", "C08/deadline/timed_window", "element arriving at %d left at %d: interval %d, blocked %d" % (inp["t"], d["t"], I, blk)))
            if T.drained:
                for inp in T.inputs[pos:]:
                    blk = sum(max(0, min(b, T.times[-1]) - max(a, inp["t"])) for a, b in blocked)
                    if T.times[-1] - inp["t"] > I + blk:
                        out.append(("C08", "C08/deadline/timed_window", "element arriving at %d still inside at %d (interval %d, blocked %d)" % (inp["t"], T.times[-1], I, blk)))
    if k == "partition":
        n, to = T.sp["n"], T.sp.get("timeout")
        kf = keyfn(T.sp["key"]) if T.sp.get("key") is not None else (lambda x: None)
        for d in T.deliv:
            if len(d["val"]) > n:
                out.append(("C08", "C08/partition-size", "partition %r exceeds size %d" % (d["val"], n)))
            if len(d["val"]) == 0:
                out.append(("C08", "C08/empty-partition", "empty partition emitted at %d" % d["t"]))
        if to is not None:
            # every batch: either full (leaves when its last member arrives) or leaves exactly timeout after its first member
            arr = {}
            for i in T.inputs:
                arr.setdefault((freeze(kf(i["val"])), i["val"]), []).append(i)
            for d in T.deliv:
                if not d["val"]:
                    continue
                firsts = arr.get((freeze(kf(d["val"][0])), d["val"][0]), [])
                first = firsts.pop(0) if firsts else None
                for x in d["val"][1:]:
                    l = arr.get((freeze(kf(x)), x), [])
                    last = l.pop(0) if l else None
                if first is None:
                    continue
                if len(d["val"]) == n:
                    if d["t"] > first["t"] + to:
                        out.append(("C08", "C08/deadline/partition", "full partition %r left at %d, first member arrived at %d, timeout %d" % (d["val"], d["t"], first["t"], to)))
                else:
                    if d["t"] != first["t"] + to:
                        out.append(("C08", "C08/spurious-flush/partition", "partial partition %r left at %d, first member arrived at %d, timeout %d" % (d["val"], d["t"], first["t"], to)))
            if T.drained:
                left = [i for l in arr.values() for i in l]
                for i in left:
                    if T.times[-1] - i["t"] > to:
                        out.append(("C08", "C08/deadline/partition", "element %r arrived at %d is still inside at %d (timeout %d)" % (i["val"], i["t"], T.times[-1], to)))
    return out


def check_c13(case, obs):
    T = Trace(case, obs)
    out = []
    if T.kind == "rate_limit":
        I = T.sp["interval"]
        ts = [d["t"] for d in T.deliv]
        for a, b in zip(ts, ts[1:]):
            if b - a < I:
                out.append(("C13", "C13/spacing", "two elements delivered at %d and %d, interval %d" % (a, b, I)))
                break
        got = [d["val"] for d in T.deliv]
        exp = [i["val"] for i in T.inputs]
        if got != exp[:len(got)]:
            out.append(("C13", "C13/order", "delivered %r, arrived %r" % (got[:10], exp[:10])))
        elif T.drained and len(got) != len(exp) and T.times[-1] - (T.inputs[-1]["t"] if T.inputs else 0) > I * (len(exp) + 1):
            out.append(("C13", "C13/loss", "delivered %d of %d" % (len(got), len(exp))))
        # idle: arrival at least one interval after the previous delivery AND previous reservation -> no delay
        for idx, (inp, d) in enumerate(zip(T.inputs, T.deliv)):
            prev_deliv = T.deliv[idx - 1]["t"] if idx > 0 else None
            if prev_deliv is None or inp["t"] - prev_deliv >= I:
                if d["t"] != inp["t"]:
                    out.append(("C13", "C13/idle-delay", "element arrived at %d after an idle period (previous delivery %s) but was delivered at %d" % (inp["t"], prev_deliv, d["t"])))
    if T.kind == "delay":
        got = [d["val"] for d in T.deliv]
        exp = [i["val"] for i in T.inputs]
        if got != exp[:len(got)]:
            out.append(("C13", "C13/delay-order", "delivered %r, arrived %r" % (got[:10], exp[:10])))
        elif T.drained and len(got) != len(exp):
            out.append(("C13", "C13/delay-count", "delivered %d of %d after everything finished" % (len(got), len(exp))))
    return out


def check_c14(case, obs):
    T = Trace(case, obs)
    out = []
    if T.kind != "latest":
        return out
    got = [d["val"] for d in T.deliv]
    exp = [i["val"] for i in T.inputs]
    # in-order subsequence, no element twice (inputs are distinct)
    pos = -1
    for g in got:
        try:
            nxt = exp.index(g, pos + 1)
        except ValueError:
            kind = "duplicate" if g in exp[:pos + 1] else "foreign"
            out.append(("C14", "C14/%s" % kind, "delivered %r from arrivals %r" % (got, exp)))
            return out
        pos = nxt
    if T.drained and exp and (not got or got[-1] != exp[-1]):
        out.append(("C14", "C14/newest-not-delivered", "consumer is free, newest arrival %r, delivered %r" % (exp[-1], got)))
    return out


def check_c10(case, obs):
    """metadata delivered with each element / batch / tuple = the metadata of exactly its members, in member order"""
    T = Trace(case, obs)
    k = T.kind
    out = []
    by_val = {}
    for i in T.inputs:
        by_val[expected_item(k, i) if k == "map_async" else i["val"]] = [tuple(m) for m in i["md"]]
    for d in T.deliv:
        members = flat_items(k, d) if k not in ("zip", "zip3") else list(d["val"])
        exp = []
        ok = True
        for x in members:
            if x not in by_val:
                ok = False
                break
            exp.extend(by_val[x])
        if not ok:
            continue
        got = [tuple(m) for m in d["md"]]
        if got != exp:
            out.append(("C10", "C10/md-exact/async/%s" % k,
                        "delivery %r in step %d carries metadata ids %r, its members carry %r"
                        % (d["val"], d["step"], [i for i, _ in got], [i for i, _ in exp])))
            break
    return out
