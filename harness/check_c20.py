"""C20 - a Dask-backed pipeline segment scatter() ... gather() is observationally equivalent to the local one.

proof:           Props/C20.v (cone: Ext/DaskFutures.v, Ext/DaskFuturesProofs.v)
oracle:          every generated pipeline spec is built twice from the same spec - local Stream nodes / scatter +
                 DaskStream nodes + gather over a fake client whose task completion order the schedule controls - and
                 run on the stepped virtual loop with an awaited producer; sink sequences, final RefCounter counts and
                 callback firings must be equal, no callback earlier than locally (model-free).
correspondence:  pipeline + inputs + executed schedule + what the real code delivered after every event + the local
                 sink sequence are compared INSIDE Coq with Ext.DaskFutures.exec / lrun / drun+force, for the gather
                 as found and for the ordered (repaired) gather; the tree must match one variant on every case.
thorough tier:   more cases, plus a handful of pipelines on a real in-process distributed cluster (final sequences)."""
import json
import os
import random
import subprocess
import sys
import time

sys.path.insert(0, os.path.dirname(os.path.abspath(__file__)))
import common

SIG_FANIN = "C20/order/bare-gather/fan-in-of-one-input"

# boundary cases that are always run first (the first one is the witness of C20_dask_order_fanin_refuted)
CORPUS = [
    {"stages": [{"k": "union", "a": [{"k": "map", "f": ["FInc"]}], "b": [{"k": "map", "f": ["FDouble"]}]}],
     "inputs": [[5, True]], "sched": {"seed": 0, "mode": "lifo", "p_emit": 1.0}},
    {"stages": [{"k": "union", "a": [{"k": "map", "f": ["FInc"]}], "b": [{"k": "map", "f": ["FDouble"]}]},
                {"k": "buffer", "n": 2}],
     "inputs": [[5, True], [6, True], [7, False]], "sched": {"seed": 0, "mode": "lifo", "p_emit": 1.0}},
    {"stages": [{"k": "map", "f": ["FInc"]}], "inputs": [[1, True], [2, True], [3, True]],
     "sched": {"seed": 0, "mode": "lifo", "p_emit": 1.0}},
    {"stages": [{"k": "map", "f": ["FAddK", 3], "style": "kw"}, {"k": "buffer", "n": 5}],
     "inputs": [[1, True], [2, True], [3, True], [4, False]], "sched": {"seed": 0, "mode": "lifo", "p_emit": 1.0}},
    {"stages": [{"k": "map", "f": ["FAddK", 2], "style": "arg"}, {"k": "partition", "n": 2},
                {"k": "starmap", "f": ["NSumK", 3]},
                {"k": "accumulate", "f": ["BAdd"], "start": None, "rs": True, "ws": False}],
     "inputs": [[i, True] for i in range(1, 7)], "sched": {"seed": 1, "mode": "random", "p_emit": 0.5}},
    {"stages": [{"k": "accumulate", "f": ["BAddK", 2], "start": {"v": 5}, "rs": True, "ws": True},
                {"k": "sliding_window", "n": 2, "partial": False}, {"k": "buffer", "n": 1}],
     "inputs": [[i, True] for i in range(5)], "sched": {"seed": 2, "mode": "lifo", "p_emit": 0.9}},
    {"stages": [{"k": "zip", "a": [{"k": "map", "f": ["FInc"]}], "b": [{"k": "partition", "n": 2}]},
                {"k": "starmap", "f": ["NTuple"]}],
     "inputs": [[i, i % 2 == 0] for i in range(6)], "sched": {"seed": 3, "mode": "lifo", "p_emit": 0.5}},
    {"stages": [{"k": "buffer", "n": 1}, {"k": "map", "f": ["FDouble"]}, {"k": "buffer", "n": 2}],
     "inputs": [[i, True] for i in range(4)], "sched": {"seed": 4, "mode": "lifo", "p_emit": 1.0}},
]

# un-awaited producers (inside the guarantee since gather emits in arrival order): the first is the interleaving
# "three un-awaited emits, the oldest task finishes, a new emit arrives, its task finishes next"
CORPUS += [
    {"stages": [{"k": "map", "f": ["FInc"]}], "inputs": [[1, True], [2, True], [3, False], [4, True]],
     "sched": {"seed": 0, "mode": "fifo", "p_emit": 1.0, "await": [False, False, False, False],
               "actions": [["emit", 0], ["emit", 1], ["emit", 2], ["done", 1], ["emit", 3], ["done", 7], ["done", 5], ["done", 3]]}},
    {"stages": [{"k": "map", "f": ["FInc"]}], "inputs": [[1, True], [2, True], [3, True]],
     "sched": {"seed": 0, "mode": "lifo", "p_emit": 1.0, "await": [False, False, False]}},
    {"stages": [{"k": "union", "a": [{"k": "map", "f": ["FInc"]}], "b": [{"k": "map", "f": ["FDouble"]}]}],
     "inputs": [[5, True], [6, False], [7, True]], "sched": {"seed": 3, "mode": "random", "p_emit": 0.5, "await": [False, True, False]}},
    {"stages": [{"k": "partition", "n": 2}, {"k": "starmap", "f": ["NSumK", 1]}, {"k": "buffer", "n": 1}],
     "inputs": [[i, i % 2 == 1] for i in range(6)], "sched": {"seed": 5, "mode": "lifo", "p_emit": 0.9, "await": [False] * 6}},
    {"stages": [{"k": "accumulate", "f": ["BAdd"], "start": None, "rs": True, "ws": False},
                {"k": "sliding_window", "n": 2, "partial": True}],
     "inputs": [[i, True] for i in range(5)], "sched": {"seed": 7, "mode": "random", "p_emit": 0.5, "await": [False, True, False, False, True]}},
]

REAL_CASES = [
    {"stages": [{"k": "map", "f": ["FInc"]}], "inputs": [[i, False] for i in range(8)]},
    {"stages": [{"k": "map", "f": ["FAddK", 3], "style": "kw"}, {"k": "partition", "n": 2},
                {"k": "starmap", "f": ["NSumK", 3]},
                {"k": "accumulate", "f": ["BAdd"], "start": None, "rs": True, "ws": False}, {"k": "buffer", "n": 3}],
     "inputs": [[i, False] for i in range(1, 9)]},
    {"stages": [{"k": "accumulate", "f": ["BAddK", 2], "start": {"v": 5}, "rs": False, "ws": True},
                {"k": "sliding_window", "n": 3, "partial": True}, {"k": "map", "f": ["FDeepSum"]}],
     "inputs": [[i, False] for i in range(6)]},
    {"stages": [{"k": "zip", "a": [{"k": "map", "f": ["FInc"]}], "b": [{"k": "partition", "n": 2}]},
                {"k": "starmap", "f": ["NTuple"]}, {"k": "buffer", "n": 4}],
     "inputs": [[i, False] for i in range(7)]},
    {"stages": [{"k": "union", "a": [{"k": "map", "f": ["FInc"]}], "b": [{"k": "map", "f": ["FDouble"]}]},
                {"k": "buffer", "n": 4}, {"k": "accumulate", "f": ["BAdd"], "start": {"v": 0}, "rs": False, "ws": False}],
     "inputs": [[i, False] for i in range(6)]},
]


def run_pair(case):
    import c20_impl
    loc = c20_impl.run_local(case)
    dk = c20_impl.run_dask(case)
    return loc, dk


def judge_case(case):
    import c20_cases
    loc, dk = run_pair(case)
    return c20_cases.judge(case, loc, dk)


def failure_cases(rng, n):
    """stateless segments (maps only) in which the mapped function FAILS for some inputs; the producer catches the
    exception and carries on.  (With a stateful node behind the failing one a failed task poisons the state future of
    the Dask version for good; the property does not speak about that, so only stateless segments are judged.)"""
    out = []
    for _ in range(n):
        nmaps = rng.choice([1, 1, 2, 3])
        # (values whose failure class is Boom or KeyError; a StopIteration raised inside a coroutine / cluster task is
        #  converted by Python itself and says nothing about the pipeline)
        bad = sorted(set(rng.choice([0, 2, 3, 5]) for _ in range(rng.choice([1, 1, 2]))))
        pos = rng.randrange(nmaps)
        stages = []
        for j in range(nmaps):
            sym = rng.choice([["FInc"], ["FDouble"], ["FId"]])
            if j == pos:
                sym = ["FFailIn", bad, sym]
            stages.append({"k": "map", "f": sym, "style": "closure"})
        m = rng.choice([3, 4, 5, 6])
        inputs = [[rng.choice([0, 1, 2, 3, 4, 5]), rng.random() < 0.6] for _ in range(m)]
        aw = rng.choice([[True] * m, [True] * m, [rng.random() < 0.5 for _ in range(m)]])
        out.append({"stages": stages, "inputs": inputs, "keep_going": True,
                    "sched": {"seed": rng.randrange(1 << 30), "mode": rng.choice(["random", "fifo", "lifo"]),
                              "p_emit": rng.choice([0.3, 0.5, 1.0]), "await": aw}})
    return out


def judge_failure_case(case, loc, dk):
    """after a failed task the Dask segment must go on exactly like the local one"""
    out = []
    if dk["stalled"] or any(v == "pending" for v in dk.get("emit_states", {}).values()):
        out.append(("C20/after-failure/stalled", "after a task failed on the cluster later elements never came out: local %r, dask %r (emit states %r)"
                    % (loc["sunk"], dk["sunk"], dk.get("emit_states"))))
    elif loc["sunk"] != dk["sunk"]:
        out.append(("C20/after-failure/results-differ", "local %r, dask %r" % (loc["sunk"], dk["sunk"])))
    else:
        lf = sorted(k for k, v in loc.get("emit_states", {}).items() if v.startswith("failed"))
        df = sorted(k for k, v in dk.get("emit_states", {}).items() if v.startswith("failed"))
        if lf != df:
            out.append(("C20/after-failure/different-emits-failed", "emits that raised: local %r, dask %r" % (lf, df)))
    return out


def parse_all(out):
    import re
    res = []
    for m in re.finditer(r"=\s*(\[[^\]]*\]|nil)\s*:\s*list\s+nat", out, re.S):
        body = m.group(1)
        res.append([] if body == "nil" else [int(x) for x in re.findall(r"\d+", body)])
    return res


def unawaited_observation():
    """D.4: emits that are NOT awaited through a bare gather - outside C20's quantifier; recorded, not judged"""
    import c20_impl
    case = {"stages": [{"k": "map", "f": ["FInc"]}], "inputs": [[1, False], [2, False], [3, False]],
            "sched": {"seed": 0, "mode": "lifo", "p_emit": 1.0}}
    loc = c20_impl.run_local(case)
    dk = c20_impl.run_dask(case, awaited=False)
    cb = dict(case, stages=case["stages"] + [{"k": "buffer", "n": 5}])
    dkb = c20_impl.run_dask(cb, awaited=False)
    return {"pipeline": "scatter().map(inc).gather(), three emits without awaiting, tasks finished newest first",
            "local": loc["sunk"], "dask_bare_gather": dk["sunk"], "dask_buffer_before_gather": dkb["sunk"],
            "reordered": dk["sunk"] != loc["sunk"],
            "status": "informational: since gather emits in arrival order un-awaited producers are inside the guarantee and "
                      "are part of the generated schedules (judged by the oracle)"}


def real_cluster(cases):
    here = os.path.dirname(os.path.abspath(__file__))
    try:
        p = subprocess.run(["timeout", "150", sys.executable, "-u", os.path.join(here, "c20_real.py"), json.dumps(cases)],
                           stdout=subprocess.PIPE, stderr=subprocess.DEVNULL, text=True, timeout=170)
        lines = [l for l in p.stdout.strip().splitlines() if l.startswith("{")]
        if not lines:
            return {"ok": False, "skipped": "no result from the real-cluster subprocess (rc=%s)" % p.returncode}
        return json.loads(lines[-1])
    except Exception as e:
        return {"ok": False, "skipped": "real-cluster subprocess failed: %s" % e}


def run(prop, tier, seed, replay=None):
    import c20_cases as C
    out = common.Outcome(prop, tier, seed)
    proof = common.props_check(prop)
    rng = random.Random(seed * 1000003 + 20)
    known = common.known_signatures(prop)
    if replay:
        rp = json.load(open(replay))["replay"]
        cases = [rp["case"]] if "case" in rp else []
    else:
        n = 600 if tier == "quick" else 12000
        cases = [json.loads(json.dumps(c)) for c in CORPUS] + [C.gen_case(rng, tier) for _ in range(n)]
    t0 = time.time()
    results = []
    found = {}
    hist_kind, hist_mode, hist_buf, hist_len, hist_prod = {}, {}, {}, {}, {}
    concurrent_emit_runs = 0
    distinct = set()
    ntasks = nsteps = 0
    reorder_schedules = 0
    for case in cases:
        if case.get("keep_going"):
            continue                      # (a replayed failing-task case: judged below)
        try:
            loc, dk = run_pair(case)
        except Exception as e:
            out.violation("C20/harness-crash", "driver crashed: %s: %s" % (type(e).__name__, e), {"case": case}, no_input=True)
            continue
        j = C.judge(case, loc, dk)
        results.append((case, loc, dk, bool(j)))
        for k in C.kinds_of(case):
            hist_kind[k] = hist_kind.get(k, 0) + 1
        hist_mode[case["sched"]["mode"]] = hist_mode.get(case["sched"]["mode"], 0) + 1
        aw = case["sched"].get("await")
        pk = "all awaited" if aw is None or all(aw) else ("none awaited" if not any(aw) else "mixed")
        hist_prod[pk] = hist_prod.get(pk, 0) + 1
        # how many emits were issued while an earlier emit was still incomplete
        if any(s[0][0] == "emit" for s in dk["steps"]) and dk.get("max_pending_emits", 0) > 1:
            concurrent_emit_runs += 1
        nb = len(C.buffer_positions(case))
        hist_buf[nb] = hist_buf.get(nb, 0) + 1
        hist_len[len(case["inputs"])] = hist_len.get(len(case["inputs"]), 0) + 1
        ntasks += dk["nsubmit"]
        nsteps += len(dk["steps"])
        dones = [s[0][1] for s in dk["steps"] if s[0][0] == "done"]
        if dones != sorted(dones):
            reorder_schedules += 1
        if dk["nsubmit"] >= 2 and loc["sunk"]:
            distinct.add(json.dumps([case["stages"], case["inputs"], [s[0] for s in dk["steps"]]], sort_keys=True))
        for sig, msg in j:
            cl = C.cls_of(sig)
            if cl not in found or len(json.dumps(case)) < len(json.dumps(found[cl][1])):
                found[cl] = (msg, case, sig)
    # ---- segments whose mapped function fails for some inputs (oracle only)
    nfail = 0
    if not replay or (cases and cases[0].get("keep_going")):
        fcases = cases if replay else failure_cases(rng, 80 if tier == "quick" else 1500)
        for case in fcases:
            try:
                loc, dk = run_pair(case)
            except Exception as e:
                out.violation("C20/harness-crash", "driver crashed: %s: %s" % (type(e).__name__, e), {"case": case}, no_input=True)
                continue
            nfail += 1
            for sig, msg in judge_failure_case(case, loc, dk):
                if sig in known:
                    out.known_finding(sig, known[sig]["what"])
                elif sig not in found:
                    found[sig] = (msg, case, sig)
                    out.violation(sig, msg, {"case": case, "local": loc["sunk"], "dask": dk["sunk"], "schedule": [s_[0] for s_ in dk["steps"]]})
        found = {k_: v_ for k_, v_ in found.items() if not str(k_).startswith("C20/after-failure")}
    t_impl = time.time() - t0
    # one report per failure class: smallest failing case, shrunk; the signature names the node kinds of the shrunk pipeline
    for cl, (msg, case, sig) in sorted(found.items()):
        if sig in known:
            out.known_finding(sig, known[sig]["what"])
        else:
            small = C.shrink(case, cl, judge_case)
            loc, dk = run_pair(small)
            for s2, m2 in C.judge(small, loc, dk):
                if C.cls_of(s2) == cl:
                    sig, msg = s2, m2
            out.violation(sig, msg, {"case": small, "local": loc["sunk"], "dask": dk["sunk"],
                                     "local_counts": loc["counts"], "dask_counts": dk["counts"],
                                     "local_fired": loc["fired"], "dask_fired": dk["fired"],
                                     "schedule": [s[0] for s in dk["steps"]], "errors": dk["errors"][:2]})
    # ---- correspondence ---------------------------------------------------------------------------------
    d = common.scratch(prop)
    good = [r for r in results if not r[1]["errors"] and not r[1]["stalled"]]
    encoded = [C.coq_case(c, l, k, flagged=fl) for c, l, k, fl in good]
    per = 150
    paths = C.write_files(d, encoded, per=per)
    t1 = time.time()
    res = common.run_case_files(paths)
    t_coq = time.time() - t1
    mism = {"as_found": [], "ordered": []}
    coq_errors = []
    for fi, p in enumerate(paths):
        rc, txt = res[p]
        lists = parse_all(txt)
        if rc != 0 or len(lists) != 2:
            coq_errors.append((p, txt[-600:]))
            continue
        mism["as_found"].extend(fi * per + i for i in lists[0])
        mism["ordered"].extend(fi * per + i for i in lists[1])
    for p, txt in coq_errors:
        out.violation("C20/correspondence-error", "coqc failed on generated cases: %s" % txt, {"file": p}, no_input=True)
    variant = None
    if not coq_errors:
        if not mism["as_found"]:
            variant = "as_found"
        elif not mism["ordered"]:
            variant = "ordered"
    discriminating = len(set(mism["as_found"]) ^ set(mism["ordered"]))
    if not coq_errors and variant is None and not out.violations:
        best = min(mism, key=lambda v: len(mism[v]))
        i = mism[best][0]
        c, l, k, fl = good[i]
        out.violation("C20/correspondence/model-differs",
                      "the real dask pipeline matches neither the gather-as-found nor the ordered-gather model "
                      "(closest: %s, %d of %d cases differ) and the oracle sees no violation on those runs"
                      % (best, len(mism[best]), len(good)),
                      {"case": c, "observed_steps": k["steps"], "local": l["sunk"],
                       "correspondence": "Ext.DaskFuturesCases.agree", "theorems_at_stake": ["C20_dask_equiv"]},
                      no_input=True)
    if variant is not None and not replay:
        saw = SIG_FANIN in found
        if variant == "as_found" and not saw:
            out.violation("C20/variant-inconsistent", "model says gather is as found but the witness of "
                          "C20_dask_order_fanin_refuted did not reorder on the real code", {"case": CORPUS[0]}, no_input=True)
        if variant == "ordered" and saw:
            out.violation("C20/variant-inconsistent", "model says gather is ordered but the oracle saw a fan-in reorder",
                          {"case": found[SIG_FANIN][1]}, no_input=True)
    if not proof["ok"]:
        out.violation("%s/proof/%s" % (prop, proof["failing"]), "proof obligation no longer checks: %s" % proof["failing"],
                      {"theorem_or_file": proof["failing"], "log": proof["log"][-3000:]}, no_input=True)
    # ---- extras ----------------------------------------------------------------------------------------------
    unaw = None if replay else unawaited_observation()
    real = None
    if tier == "thorough" and not replay:
        real = real_cluster(REAL_CASES)
        if real.get("ok"):
            for case, (l, dsk) in zip(REAL_CASES, real["results"]):
                if l != dsk:
                    sig = "C20/real-cluster/final-sequence/" + "+".join(sorted(C.kinds_of(case)))
                    if sig in known:
                        out.known_finding(sig, known[sig]["what"])
                    else:
                        out.violation(sig, "real in-process cluster: local %s dask %s" % (l, dsk), {"case": case, "real_cluster": True})
    nv = len(mism[variant]) if variant else min(len(m) for m in mism.values())
    cov = {
        "evaluations": len(results),
        "distinct_nontrivial": len(distinct),
        "rule": "corpus of boundary pipelines, then seeded random type-correct pipelines: 1-4 (thorough 1-6) top-level stages over "
                "map (closure / positional arg / keyword arg), starmap (plain / keyword arg), accumulate (start or not, "
                "returns_state, with_state, keyword arg), partition, sliding_window, zip / union of two chains forked from one "
                "upstream, 0-2 buffers on the main chain; 1-6 (1-9) integer inputs, ~60% carrying a RefCounter; schedule produced "
                "online by a seeded policy (random / newest-eligible-first / oldest-first, emit probability 0.2..1.0); producer "
                "discipline per case: every emit awaited (40%), none awaited (25%), mixed per emit (35%), so new emits arrive between "
                "task completions while earlier results are still pending at gather; 45% of the not-fully-awaited cases use pipelines "
                "of mutually independent tasks (map / starmap / partition / sliding_window / union, no accumulate, no buffer, 3-6 inputs) "
                "so that every completion order of the outstanding tasks is possible. non-trivial = at least two submitted tasks and at least one delivery; distinct by (stages, inputs, executed schedule)",
        "samples": [{"case": results[i][0], "schedule": [s[0] for s in results[i][2]["steps"]], "dask_sink": results[i][2]["sunk"],
                     "local_sink": results[i][1]["sunk"]} for i in (0, len(CORPUS), len(results) - 1) if i < len(results)],
        "traces_validated_against_impl": len(good) - nv,
        "disagreements_checked": nv,
        "gather_variant_matched": variant,
        "mismatches_per_variant": {k: len(v) for k, v in mism.items()},
        "cases_discriminating_the_variants": discriminating,
        "schedule_steps_executed": nsteps, "tasks_submitted": ntasks,
        "schedules_with_out_of_order_completion": reorder_schedules,
        "node_kind_histogram": hist_kind, "schedule_mode_histogram": hist_mode,
        "producer_discipline_histogram": hist_prod,
        "runs_with_several_emits_in_flight": concurrent_emit_runs,
        "buffers_per_pipeline_histogram": {str(k): v for k, v in sorted(hist_buf.items())},
        "inputs_per_case_histogram": {str(k): v for k, v in sorted(hist_len.items())},
        "oracle_signatures_seen": sorted(found),
        "observation_unawaited_producer": unaw,
        "real_cluster": real if real is not None else "thorough tier only",
        "impl_seconds": round(t_impl, 2), "coq_case_seconds": round(t_coq, 2),
    }
    return out.finish(proof, cov)


if __name__ == "__main__":
    import argparse
    ap = argparse.ArgumentParser()
    ap.add_argument("prop", nargs="?", default="C20")
    ap.add_argument("--tier", default=common.tier_from_env())
    ap.add_argument("--replay")
    a = ap.parse_args()
    sys.exit(run(a.prop, a.tier, common.seed_from_env(), a.replay))
