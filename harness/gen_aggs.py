"""Fail-closed translator of the reduction classes of streamz/dataframe/aggregations.py -> coq/theories/Gen/KA_*.v, on every
run, from the CURRENT source under test.  Called from gen_kernels.regenerate().

Translated (each python function becomes one Gallina definition `gen_<class>_<method>`; suffix `_v` = vector path):
  Sum / Count / Size / Mean / Var : on_new, on_old, initial     scalar path = streaming Series (statistics are numbers),
                                                                vector path = streaming DataFrame (one statistic per
                                                                column, held in a pandas Series)
  _divide, Var._compute_result                                  both paths
  accumulator, diff_expanding                                   generic in the aggregation / batch type
  diff_iloc                                                     the `while n > 0` loop as recursion on explicit fuel
The hand-written models are DF/Agg.v (C06, C12) and DF/Window.v (C07); Base/BridgeAggs.v, BridgeAggsVec.v (DF/Agg.v),
BridgeAggsWindow.v and BridgeAggsIloc.v (DF/Window.v) prove `generated = model` (repaired variant), and the property files restate those lemmas (harness/mkprops_aggs.py), so an
edit of one of these classes changes a generated file and a proof in the cone stops checking.

HOW.  Symbolic execution of the python AST.  A store maps every local to a typed symbolic value (a Gallina term over the
parameters); `=`, `op=`, tuple assignment update it in source order; a local is resolved where it is used, with the value
it had when it was bound (so renaming / introducing / inlining locals, `x += y` for `x = x + y` change nothing); an `if`
runs the rest of the function once per branch and joins the two results with a conditional, component by component for
tuples (so `if c: ... else: ...`, its inversion, early `return`s and conditional expressions give terms the bridges split
the same way); calls of `_divide` / `self._compute_result` / any module level helper are inlined; tests whose value the
path fixes (`isinstance(x, Number)`) are folded with python's short-circuit rule and the dead branch is not looked at.
A `while` loop (one per function, not nested) becomes a separate recursive definition `<name>_loop` on explicit fuel over the
loop-carried variables - the locals the body rebinds or updates in place, in textual order of the first such place; the
rest of the enclosing function is the loop's exit; `dfs[0]` / `dfs.popleft()` on a deque held by a loop variable split the
path on empty / non-empty (empty = python's IndexError = None).  The fuel is `2 + number of frames in the first carried
list at loop entry`; the bridge proves it suffices.
Anything else - another loop form, an unknown method or attribute, a keyword argument, a value used at the wrong type, the truth
value of a Series, ... - raises KernelError: the generated file is replaced by one that does not compile and every property
whose cone contains the bridge reports the obligation as broken.

WHAT THE TRANSLATOR IS TOLD (the per-function schema SCHEMA below): the TYPE of every parameter and of the result, per
path.  Q = a float (exact rational `Qc`), Z = an integer count / size, F = the result of a float division or np.nan
(`fnum`: number | NaN | inf), S = a batch (abstract: `ser P` / `vfr P`), tuples of those, VQ / VZ / VF = a per-column
pandas Series of Q / Z / F (`list`).  Parameters are taken by POSITION, so renaming them is harmless.

ASSUMPTIONS = the fixed mapping of python / pandas primitives (MAPPING below; printed into every generated file).  They
are statements about pandas and numpy, not about streamz; the correspondence checks of C06/C07/C11/C12 exercise them
against the real pandas on generated tables.
"""
import ast
import re
from fractions import Fraction

from gen_kernels import KernelError, find_class, body_src

MAPPING = """\
  python / pandas (scalar path: s is a batch of a streaming Series)        Gallina (Base/AggPrims.v, record pd_ops)
    s.sum()                                   p_sum P s        NaN skipped; 0 for no values; a float
    (s ** 2).sum()   (s * s).sum()            p_sumsq P s
    s.count()                                 p_count P s      number of non-NaN values; an integer
    s.size                                    p_size P s       an integer
    len(s)                                    p_len P s        an integer; `if len(s):` is  negb (p_len P s =? 0)
    s.iloc[:0]                                p_empty P s      the empty batch
  vector path (s is a batch of a streaming DataFrame; the statistics are pandas Series indexed by column = lists)
    s.sum() (s ** 2).sum() s.count()          v_sum P s, v_sumsq P s, v_count P s : one entry per column
    len(s)  s.size                            v_len P s (rows), v_size P s (rows * columns): plain integers
    a + b, a - b, a * b, a / b                vzip of the scalar operation (both operands carry the columns of the same
                                              frame in the same order; a number is broadcast); r[:] = k  is  map (fun _ => k) r
  numbers
    isinstance(x, Number)                     true for a Q / Z / F value, false for a per-column Series
    float + - * (also with an integer)        Qc arithmetic, the integer injected by z2qc (exact: no rounding, no dtypes)
    integer + - *                             Z arithmetic
    a / b                                     fdiv: numpy float semantics - x / 0 is NaN for x = 0 and an infinity (sign not
                                              kept) otherwise, NaN propagates through + - * /, arithmetic ON an infinity is
                                              NaN.  Accepted only when the numerator is already a float result (F) or the
                                              path has established divisor != 0: a statistic typed Q / Z may still be
                                              the python int 0 of `initial`, and python int / 0 raises ZeroDivisionError
    x ** 2                                    x * x
    np.nan   float('nan')                     FNan
    the python int 0 of `initial`             the number 0 of the type the schema expects (Q or Z)
    a == b, a != b, < <= > >= on integers     Z.eqb, Z.ltb, Z.leb (`>` `>=` are written as `<` `<=` of the swapped operands);
    a == b on floats                          Qc_eq_bool
    self.ddof                                 the parameter ddof : Z
    acc is None (accumulator)                 acc : option S is None
    deque(l)  l.append(x)  []                 the list l, l ++ [x], []   (only on a local that holds a fresh copy)
    l[0]  l.popleft()  l[0] = x               head / tail / replaced head of a non-empty list; on an empty one: IndexError (None)
    len(l)   sum(map(len, l))                 Z.of_nat (length l),  p_total P l
    s.iloc[:n]   s.iloc[n:]                   p_take P n s,  p_drop P n s      accepted only where the path has 0 < n
    while c: body                             recursion on fuel (see above); out of fuel = None
    agg.initial(new)  agg.on_new(acc, new)    the parameters agg_initial, agg_on_new of gen_accumulator
  not modelled: float rounding, dtypes, index / column labels, warnings, exceptions other than the division gate above."""


__doc__ += "\nMAPPING (the assumptions)\n" + MAPPING + "\n"


# ----------------------------------------------------------------------------------------------------------- types
def ty_coq(t, path):
    if t == "Q":
        return "Qc"
    if t == "Z":
        return "Z"
    if t == "F":
        return "fnum"
    if t == "B":
        return "bool"
    if t == "S":
        return "(ser P)" if path == "s" else "(vfr P)"
    if t == "VQ":
        return "(list Qc)"
    if t == "VZ":
        return "(list Z)"
    if t == "VF":
        return "(list fnum)"
    if isinstance(t, tuple) and t[0] == "T":
        return "(" + " * ".join(ty_coq(x, path) for x in t[1]) + ")%type"
    if isinstance(t, tuple) and t[0] == "X":
        return t[1]
    if isinstance(t, tuple) and t[0] == "O":
        return "(option %s)" % ty_coq(t[1], path)
    if isinstance(t, tuple) and t[0] == "L":
        return "(list %s)" % ty_coq(t[1], path)
    raise KernelError("type %r" % (t,))


def T(*ts):
    return ("T", tuple(ts))


SCALARS = ("Q", "Z", "F")
VECTORS = ("VQ", "VZ", "VF")
ELEM = {"VQ": "Q", "VZ": "Z", "VF": "F"}
VEC = {"Q": "VQ", "Z": "VZ", "F": "VF"}


# ----------------------------------------------------------------------------------------------------------- values
class Sc:
    """a Gallina term of a non-tuple type.  For booleans `b` keeps the structure of the test:
    ('atom',) | ('const', bool) | ('not', c) | ('and', [c..]) | ('or', [c..])"""

    def __init__(self, ty, term, b=None, cons=None, var=False):
        self.ty, self.term, self.b = ty, term, b if b is not None else ("atom",)
        self.cons, self.var = cons, var        # lists: (head term, tail term) when known non-empty; a loop binder


class Tup:
    def __init__(self, items):
        self.items = list(items)

    @property
    def ty(self):
        return T(*[i.ty for i in self.items])


class Ser:
    """a batch (or its elementwise square)"""
    ty = "S"

    def __init__(self, term, sq=False):
        self.term, self.sq = term, sq


class NoneV:
    ty = "None"


class Opt:
    """the value of a path through a loop: a Gallina term of type `option R` (None = IndexError / out of fuel)"""
    ty = "option"

    def __init__(self, term, rty=None):
        self.term, self.rty = term, rty


class NeedSplit(Exception):
    """the head of a list held by a loop binder is needed: the statement is re-run in the non-empty case"""

    def __init__(self, name):
        Exception.__init__(self, name)
        self.name = name


LIST_S = ("L", "S")


def mk_list(term, cons=None, var=False):
    return Sc(LIST_S, term, b=("fresh",), cons=cons, var=var)


def is_list(v):
    return isinstance(v, Sc) and v.ty == LIST_S


class Obj:
    """an abstract object whose methods are parameters of the generated definition (the `agg` of accumulator)"""
    ty = "obj"

    def __init__(self, methods):
        self.methods = methods             # name -> (coq function term, [param types], result type)


def const_b(v):
    return Sc("B", "true" if v else "false", ("const", bool(v)))


def is_const(c, v=None):
    return c.b[0] == "const" and (v is None or c.b[1] == v)


def mk_not(c):
    if is_const(c):
        return const_b(not c.b[1])
    if c.b[0] == "not":
        return c.b[1]
    return Sc("B", "(negb %s)" % c.term, ("not", c))


def mk_bool(op, cs):
    """python `and` / `or` in a test: operands after a constant that decides it are never evaluated"""
    stop = (op == "or")
    parts = []
    for c in cs:
        if is_const(c, stop):
            parts.append(c)
            break
        if is_const(c):
            continue
        parts.append(c)
    if parts and is_const(parts[-1]):
        if len(parts) == 1:
            return const_b(stop)
    if not parts:
        return const_b(not stop)
    if len(parts) == 1:
        return parts[0]
    return Sc("B", "(" + (" || " if op == "or" else " && ").join(p.term for p in parts) + ")", (op, parts))


def implied(c, pol):
    """the atoms (term, polarity) that hold when the test c evaluates to pol"""
    k = c.b[0]
    if k == "const":
        return []
    if k == "not":
        return implied(c.b[1], not pol)
    if (k == "and" and pol) or (k == "or" and not pol):
        return [f for s in c.b[1] for f in implied(s, pol)]
    if k in ("and", "or"):
        return []
    return [(c.term, pol)]


class Tr:
    """the translation of one python function (and of everything it inlines)"""

    def __init__(self, module, path, what):
        self.module, self.path, self.what = module, path, what
        self.depth = 0
        self.loops = []                  # lambda-lifted loops: (name, binder declarations, result type, body term)
        self.outer = None                # (binder names, binder declarations) of the enclosing definition
        self.fresh_k = 0
        self.in_loop = False

    # ---------------------------------------------------------------------------------------------------- errors
    def err(self, text, node=None):
        where = " (line %d)" % node.lineno if node is not None and hasattr(node, "lineno") else ""
        raise KernelError("%s: %s%s" % (self.what, text, where))

    # ---------------------------------------------------------------------------------------------------- coercions
    def to_q(self, v, node=None):
        if isinstance(v, Sc) and v.ty == "Q":
            return v.term
        if isinstance(v, Sc) and v.ty == "Z":
            return "(z2qc %s)" % v.term
        self.err("a float was expected, found %s" % self.show_ty(v), node)

    def to_f(self, v, node=None):
        if isinstance(v, Sc) and v.ty == "F":
            return v.term
        return "(FNum %s)" % self.to_q(v, node)

    def show_ty(self, v):
        return "%s" % (getattr(v, "ty", type(v).__name__),)

    def coerce(self, v, ty, node=None):
        """the value at the type the schema expects (int -> float -> float result only)"""
        if isinstance(ty, tuple) and ty[0] == "T":
            if not isinstance(v, Tup) or len(v.items) != len(ty[1]):
                self.err("a %d-tuple was expected, found %s" % (len(ty[1]), self.show_ty(v)), node)
            return Tup([self.coerce(i, t, node) for i, t in zip(v.items, ty[1])])
        if isinstance(v, Sc):
            if v.ty == ty:
                return v
            if ty == "Q" and v.ty == "Z" and re.fullmatch(r"\(-?\d+\)%Z", v.term):
                return Sc("Q", self.to_q(v))          # the python int 0 of `initial`, used as a float from then on
            if ty == "F" and v.ty in ("Q", "Z"):
                return Sc("F", self.to_f(v))
            if ty == "VF" and v.ty == "VQ":
                return Sc("VF", "(map FNum %s)" % v.term)
        self.err("the result has type %s where %s is expected" % (self.show_ty(v), ty), node)

    # ---------------------------------------------------------------------------------------------------- joins
    def lift(self, v, node=None):
        """a value as a term of type option R"""
        if isinstance(v, Opt):
            return v.term
        if isinstance(v, (Tup, Sc)):
            return "(Some %s)" % render(v)
        self.err("a path through the loop yields %s" % self.show_ty(v), node)

    def mkif(self, c, a, b, node=None):
        if isinstance(a, Opt) or isinstance(b, Opt):
            rty = a.rty if isinstance(a, Opt) and a.rty is not None else (b.rty if isinstance(b, Opt) else None)
            if rty is None:
                rty = (b if isinstance(a, Opt) else a).ty if not (isinstance(a, Opt) and isinstance(b, Opt)) else None
            return Opt("(if %s then %s else %s)" % (c.term, self.lift(a, node), self.lift(b, node)), rty)
        if isinstance(a, Tup) and isinstance(b, Tup) and len(a.items) == len(b.items):
            return Tup([self.mkif(c, x, y, node) for x, y in zip(a.items, b.items)])
        if isinstance(a, NoneV) and isinstance(b, NoneV):
            return a
        if isinstance(a, Ser) and isinstance(b, Ser) and a.sq == b.sq:
            return a if a.term == b.term else Ser("(if %s then %s else %s)" % (c.term, a.term, b.term), a.sq)
        if isinstance(a, Sc) and isinstance(b, Sc):
            ty = a.ty
            if a.ty != b.ty:
                order = ["Z", "Q", "F"]
                if a.ty in order and b.ty in order:
                    ty = max(a.ty, b.ty, key=order.index)
                elif {a.ty, b.ty} == {"VQ", "VF"}:
                    ty = "VF"
                else:
                    self.err("the branches of a conditional have types %s and %s" % (a.ty, b.ty), node)
                a, b = self.widen(a, ty), self.widen(b, ty)
            if a.term == b.term:
                return a
            mark = ("param",) if ("param",) in (a.b, b.b) else None
            return Sc(ty, "(if %s then %s else %s)" % (c.term, a.term, b.term), mark)
        self.err("the branches of a conditional yield %s and %s" % (self.show_ty(a), self.show_ty(b)), node)

    def widen(self, v, ty):
        if v.ty == ty:
            return v
        if ty == "Q":
            return Sc("Q", self.to_q(v))
        if ty == "F":
            return Sc("F", self.to_f(v))
        if ty == "VF" and v.ty == "VQ":
            return Sc("VF", "(map FNum %s)" % v.term)
        self.err("cannot use %s as %s" % (v.ty, ty))

    def mkmatch(self, scrut, var, none, some, node=None):
        if isinstance(none, Tup) and isinstance(some, Tup) and len(none.items) == len(some.items):
            return Tup([self.mkmatch(scrut, var, x, y, node) for x, y in zip(none.items, some.items)])
        if isinstance(none, Sc) and isinstance(some, Sc) and none.ty == some.ty:
            return Sc(none.ty, "(match %s with None => %s | Some %s => %s end)" % (scrut, none.term, var, some.term))
        self.err("the two cases of `is None` yield %s and %s" % (self.show_ty(none), self.show_ty(some)), node)

    # ---------------------------------------------------------------------------------------------------- tests
    def truth(self, v, node=None):
        if isinstance(v, Sc):
            if v.ty == "B":
                return v
            if v.ty == "Z":
                return mk_not(self.eqb(v, Sc("Z", "(0)%Z")))
            if v.ty == "Q":
                return mk_not(self.eqb(v, Sc("Q", "(z2qc (0)%Z)")))
            if v.ty in VECTORS:
                self.err("the truth value of a Series is ambiguous (pandas raises)", node)
        if isinstance(v, Ser):
            self.err("the truth value of a Series / DataFrame is ambiguous (pandas raises)", node)
        self.err("truth value of %s" % self.show_ty(v), node)

    def eqb(self, a, b, node=None):
        if a.ty == "Z" and b.ty == "Z":
            if re.fullmatch(r"\(-?\d+\)%Z", a.term) and not re.fullmatch(r"\(-?\d+\)%Z", b.term):
                a, b = b, a                                  # the literal on the right: one spelling of `0 == n`
            return Sc("B", "(%s =? %s)%%Z" % (a.term, b.term))
        if a.ty in ("Q", "Z") and b.ty in ("Q", "Z"):
            return Sc("B", "(Qc_eq_bool %s %s)" % (self.to_q(a), self.to_q(b)))
        if a.ty in SCALARS and b.ty in SCALARS:
            return Sc("B", "(feqb %s %s)" % (self.to_f(a), self.to_f(b)))
        if a.ty in VECTORS or b.ty in VECTORS:
            # an elementwise comparison yields a Series; the only thing the translated code could do with it is test it
            self.err("comparison of a per-column Series: its truth value is ambiguous (pandas raises)", node)
        self.err("comparison of %s and %s" % (a.ty, b.ty), node)

    def nonzero(self, v, facts):
        """has the path established that this divisor is not zero?"""
        if v.ty == "Z":
            if re.fullmatch(r"\(-?[1-9]\d*\)%Z", v.term):
                return True
            return (self.eqb(v, Sc("Z", "(0)%Z")).term, False) in facts
        if v.ty == "Q":
            return (self.eqb(v, Sc("Q", "(z2qc (0)%Z)")).term, False) in facts
        return False

    # ---------------------------------------------------------------------------------------------------- arithmetic
    def scalar_op(self, op, a, b, facts, node, gate=True):
        """a, b : Sc of type Q / Z / F"""
        sym = {ast.Add: "+", ast.Sub: "-", ast.Mult: "*"}
        if type(op) in sym:
            if a.ty == "Z" and b.ty == "Z":
                return Sc("Z", "(%s %s %s)%%Z" % (a.term, sym[type(op)], b.term))
            if "F" in (a.ty, b.ty):
                f = {ast.Add: "fadd", ast.Sub: "fsub", ast.Mult: "fmul"}[type(op)]
                return Sc("F", "(%s %s %s)" % (f, self.to_f(a, node), self.to_f(b, node)))
            return Sc("Q", "(%s %s %s)%%Qc" % (self.to_q(a, node), sym[type(op)], self.to_q(b, node)))
        if isinstance(op, ast.Div):
            if gate and a.ty != "F" and not self.nonzero(b, facts):
                self.err("division %s / %s: the divisor is not known to be non-zero on this path, and both operands may "
                         "still be the python ints of `initial` (ZeroDivisionError)" % (a.term, b.term), node)
            return Sc("F", "(fdiv %s %s)" % (self.to_f(a, node), self.to_f(b, node)))
        self.err("operator %s" % type(op).__name__, node)

    def elem_fun(self, op, ta, tb, facts, node):
        """the scalar operation as a Gallina function of two elements (vector path) -> (result elem type, fun text).
        Inside a per-column operation the operands are numpy arrays: numpy semantics, no ZeroDivisionError, so the
        division gate does not apply."""
        r = self.scalar_op(op, Sc(ta, "ea"), Sc(tb, "eb"), facts, node, gate=False)
        return r.ty, "(fun ea eb => %s)" % r.term

    def binop(self, op, a, b, facts, node):
        if isinstance(a, Ser) or isinstance(b, Ser):
            if isinstance(op, ast.Mult) and isinstance(a, Ser) and isinstance(b, Ser) and a.term == b.term and not a.sq and not b.sq:
                return Ser(a.term, sq=True)
            self.err("arithmetic on a batch other than s ** 2 / s * s", node)
        if not (isinstance(a, Sc) and isinstance(b, Sc)):
            self.err("arithmetic on %s and %s" % (self.show_ty(a), self.show_ty(b)), node)
        if a.ty in SCALARS and b.ty in SCALARS:
            return self.scalar_op(op, a, b, facts, node)
        if a.ty in VECTORS or b.ty in VECTORS:
            if not (a.ty in VECTORS + SCALARS and b.ty in VECTORS + SCALARS):
                self.err("arithmetic on %s and %s" % (a.ty, b.ty), node)
            ta, tb = ELEM.get(a.ty, a.ty), ELEM.get(b.ty, b.ty)
            rty, f = self.elem_fun(op, ta, tb, facts, node)
            if a.ty in VECTORS and b.ty in VECTORS:
                return Sc(VEC[rty], "(vzip %s %s %s)" % (f, a.term, b.term))
            if a.ty in VECTORS:                              # a number is broadcast
                return Sc(VEC[rty], "(map (fun ea => %s ea %s) %s)" % (f, b.term, a.term))
            return Sc(VEC[rty], "(map (fun eb => %s %s eb) %s)" % (f, a.term, b.term))
        self.err("arithmetic on %s and %s" % (a.ty, b.ty), node)

    def power(self, a, k, facts, node):
        if not (isinstance(k, int) and 1 <= k <= 4):
            self.err("power other than a small positive integer literal", node)
        if isinstance(a, Ser):
            if k == 2 and not a.sq:
                return Ser(a.term, sq=True)
            self.err("power of a batch other than ** 2", node)
        r = a
        for _ in range(k - 1):
            r = self.binop(ast.Mult(), r, a, facts, node)
        return r

    # ---------------------------------------------------------------------------------------------------- expressions
    def lit(self, v, node):
        if isinstance(v, bool):
            return const_b(v)
        if isinstance(v, int):
            return Sc("Z", "(%d)%%Z" % v)
        if isinstance(v, float):
            if v != v:
                return Sc("F", "FNan")
            if v in (float("inf"), float("-inf")):
                self.err("infinite literal", node)
            fr = Fraction(v)
            if fr.denominator == 1:
                return Sc("Q", "(z2qc (%d)%%Z)" % fr.numerator)
            return Sc("Q", "(Q2Qc (%d # %d))" % (fr.numerator, fr.denominator))
        if v is None:
            return NoneV()
        self.err("literal %r" % (v,), node)

    def expr(self, e, env, facts):
        if isinstance(e, ast.Constant):
            return self.lit(e.value, e)
        if isinstance(e, ast.Name):
            if e.id in env:
                return env[e.id]
            self.err("name %s is not bound here" % e.id, e)
        if isinstance(e, ast.Tuple):
            return Tup([self.expr(x, env, facts) for x in e.elts])
        if isinstance(e, ast.List) and not e.elts:
            return Sc(("L", "S"), "(@nil %s)" % ty_coq("S", self.path), b=("fresh",))
        src = ast.unparse(e)
        if src in ("np.nan", "numpy.nan", "np.NaN", "float('nan')", "math.nan"):
            return Sc("F", "FNan")
        if isinstance(e, ast.Attribute):
            if isinstance(e.value, ast.Name) and e.value.id == "self":
                if ("self." + e.attr) in env:
                    return env["self." + e.attr]
                self.err("attribute self.%s is not in the schema" % e.attr, e)
            v = self.expr(e.value, env, facts)
            if isinstance(v, Ser) and e.attr == "size" and not v.sq:
                return Sc("Z", "(%s P %s)" % ("p_size" if self.path == "s" else "v_size", v.term))
            self.err("attribute .%s of %s" % (e.attr, self.show_ty(v)), e)
        if isinstance(e, ast.UnaryOp):
            if isinstance(e.op, ast.Not):
                return mk_not(self.truth(self.expr(e.operand, env, facts), e))
            if isinstance(e.op, ast.USub):
                v = self.expr(e.operand, env, facts)
                if isinstance(v, Sc) and v.ty == "Z":
                    m = re.fullmatch(r"\((\d+)\)%Z", v.term)
                    return Sc("Z", "(-%s)%%Z" % m.group(1)) if m else Sc("Z", "(- %s)%%Z" % v.term)
                if isinstance(v, Sc) and v.ty == "Q":
                    return Sc("Q", "(- %s)%%Qc" % v.term)
                if isinstance(v, Sc) and v.ty == "F":
                    return Sc("F", "(fneg %s)" % v.term)
                if isinstance(v, Sc) and v.ty in VECTORS:
                    body = {"VZ": "(- ea)%Z", "VQ": "(- ea)%Qc", "VF": "(fneg ea)"}[v.ty]
                    return Sc(v.ty, "(map (fun ea => %s) %s)" % (body, v.term))
                self.err("unary minus of %s" % self.show_ty(v), e)
            if isinstance(e.op, ast.UAdd):
                return self.expr(e.operand, env, facts)
            self.err("operator %s" % type(e.op).__name__, e)
        if isinstance(e, ast.BinOp):
            if isinstance(e.op, ast.Pow):
                if not (isinstance(e.right, ast.Constant) and isinstance(e.right.value, int) and not isinstance(e.right.value, bool)):
                    self.err("power with an exponent that is not an integer literal", e)
                return self.power(self.expr(e.left, env, facts), e.right.value, facts, e)
            a = self.expr(e.left, env, facts)
            b = self.expr(e.right, env, facts)
            return self.binop(e.op, a, b, facts, e)
        if isinstance(e, ast.BoolOp):
            op = "and" if isinstance(e.op, ast.And) else "or"
            cs = []
            for x in e.values:
                c = self.truth(self.expr(x, env, facts), x)
                cs.append(c)
                if is_const(c, op == "or"):
                    break                                # short circuit: what follows is never evaluated
                facts = facts + implied(c, op == "and")
            return mk_bool(op, cs)
        if isinstance(e, ast.Compare):
            if len(e.ops) != 1:
                self.err("chained comparison", e)
            op = e.ops[0]
            if isinstance(op, (ast.Is, ast.IsNot)):
                if not (isinstance(e.comparators[0], ast.Constant) and e.comparators[0].value is None):
                    self.err("`is` other than against None", e)
                v = self.expr(e.left, env, facts)
                if isinstance(v, NoneV):
                    return const_b(isinstance(op, ast.Is))
                if isinstance(v, Sc) and isinstance(v.ty, tuple) and v.ty[0] == "O":
                    self.err("`is None` on an optional value outside the test of an `if` statement", e)
                if isinstance(v, (Sc, Tup, Ser)):
                    return const_b(isinstance(op, ast.IsNot))
                self.err("`is None` of %s" % self.show_ty(v), e)
            a = self.expr(e.left, env, facts)
            b = self.expr(e.comparators[0], env, facts)
            if not (isinstance(a, Sc) and isinstance(b, Sc)):
                self.err("comparison of %s and %s" % (self.show_ty(a), self.show_ty(b)), e)
            if isinstance(op, ast.Eq):
                return self.eqb(a, b, e)
            if isinstance(op, ast.NotEq):
                return mk_not(self.eqb(a, b, e))
            if a.ty == "Z" and b.ty == "Z":
                if isinstance(op, ast.Lt):
                    return Sc("B", "(%s <? %s)%%Z" % (a.term, b.term))
                if isinstance(op, ast.LtE):
                    return Sc("B", "(%s <=? %s)%%Z" % (a.term, b.term))
                if isinstance(op, ast.Gt):
                    return Sc("B", "(%s <? %s)%%Z" % (b.term, a.term))
                if isinstance(op, ast.GtE):
                    return Sc("B", "(%s <=? %s)%%Z" % (b.term, a.term))
            self.err("comparison %s of %s and %s" % (type(op).__name__, a.ty, b.ty), e)
        if isinstance(e, ast.IfExp):
            c = self.truth(self.expr(e.test, env, facts), e.test)
            if is_const(c):
                return self.expr(e.body if c.b[1] else e.orelse, env, facts)
            return self.mkif(c, self.expr(e.body, env, facts + implied(c, True)),
                             self.expr(e.orelse, env, facts + implied(c, False)), e)
        if isinstance(e, ast.Subscript):
            if isinstance(e.value, ast.Attribute) and e.value.attr == "iloc":
                v = self.expr(e.value.value, env, facts)
                if isinstance(v, Ser) and not v.sq and ast.unparse(e.slice) in (":0", "0:0"):
                    return Ser("(%s P %s)" % ("p_empty" if self.path == "s" else "v_empty", v.term))
                sl = e.slice
                if isinstance(v, Ser) and not v.sq and self.path == "s" and isinstance(sl, ast.Slice) and sl.step is None \
                        and (sl.lower is None) != (sl.upper is None):
                    n = self.expr(sl.upper if sl.lower is None else sl.lower, env, facts)
                    if not (isinstance(n, Sc) and n.ty == "Z"):
                        self.err("slice bound of type %s" % self.show_ty(n), e)
                    if ("(%s <? %s)%%Z" % ("(0)%Z", n.term), True) not in facts:
                        self.err("slice %s: the bound is not known to be positive on this path (a negative bound counts from "
                                 "the end)" % src, e)
                    return Ser("(%s P %s %s)" % ("p_take" if sl.lower is None else "p_drop", n.term, v.term))
                self.err("subscript %s" % src, e)
            if isinstance(e.value, ast.Name) and is_list(env.get(e.value.id)) and isinstance(e.slice, ast.Constant) and e.slice.value == 0:
                lst = env[e.value.id]
                if lst.cons is not None:
                    return Ser(lst.cons[0])
                if lst.var:
                    raise NeedSplit(e.value.id)
                self.err("%s[0]: the list is not known to be non-empty" % e.value.id, e)
            v = self.expr(e.value, env, facts)
            if isinstance(v, Tup) and isinstance(e.slice, ast.Constant) and isinstance(e.slice.value, int) \
                    and -len(v.items) <= e.slice.value < len(v.items):
                return v.items[e.slice.value]
            self.err("subscript %s" % src, e)
        if isinstance(e, ast.Call):
            return self.call(e, env, facts)
        self.err("expression not translatable: %s" % src, e)

    def call(self, e, env, facts):
        src = ast.unparse(e)
        if e.keywords or any(isinstance(a, ast.Starred) for a in e.args):
            self.err("call with keyword / starred arguments: %s" % src, e)
        f = e.func
        if isinstance(f, ast.Name):
            if f.id in env:
                self.err("call of the local %s" % f.id, e)
            if f.id == "len" and len(e.args) == 1:
                v = self.expr(e.args[0], env, facts)
                if isinstance(v, Ser) and not v.sq:
                    return Sc("Z", "(%s P %s)" % ("p_len" if self.path == "s" else "v_len", v.term))
                if is_list(v):
                    return Sc("Z", "(Z.of_nat (length %s))" % v.term)
                self.err("len of %s" % self.show_ty(v), e)
            if f.id == "sum" and len(e.args) == 1 and isinstance(e.args[0], ast.Call) and ast.unparse(e.args[0].func) == "map" \
                    and len(e.args[0].args) == 2 and ast.unparse(e.args[0].args[0]) == "len" and not e.args[0].keywords \
                    and "map" not in env and "len" not in env and self.path == "s":
                v = self.expr(e.args[0].args[1], env, facts)
                if is_list(v):
                    return Sc("Z", "(p_total P %s)" % v.term)
                self.err("sum(map(len, ..)) of %s" % self.show_ty(v), e)
            if f.id == "isinstance" and len(e.args) == 2 and ast.unparse(e.args[1]) in ("Number", "numbers.Number"):
                v = self.expr(e.args[0], env, facts)
                if isinstance(v, Sc) and v.ty in SCALARS:
                    return const_b(True)
                if isinstance(v, Sc) and v.ty in VECTORS:
                    return const_b(False)
                self.err("isinstance(.., Number) of %s" % self.show_ty(v), e)
            if f.id in ("deque", "list") and len(e.args) == 1:
                v = self.expr(e.args[0], env, facts)
                if isinstance(v, Sc) and isinstance(v.ty, tuple) and v.ty[0] == "L":
                    return Sc(v.ty, v.term, b=("fresh",), cons=v.cons)
                self.err("%s(..) of %s" % (f.id, self.show_ty(v)), e)
            if f.id == "float" and len(e.args) == 1:
                v = self.expr(e.args[0], env, facts)
                if isinstance(v, Sc) and v.ty in ("Q", "Z"):
                    return Sc("Q", self.to_q(v))
                self.err("float(..) of %s" % self.show_ty(v), e)
            fn = [n for n in self.module.body if isinstance(n, ast.FunctionDef) and n.name == f.id]
            if len(fn) == 1 and f.id not in env:
                return self.inline(fn[0], [self.expr(a, env, facts) for a in e.args], {}, facts, e)
            self.err("call of %s" % f.id, e)
        if isinstance(f, ast.Attribute):
            if isinstance(f.value, ast.Name) and f.value.id == "self":
                cls = env.get("self.__class__")
                fn = [n for n in (cls.body if cls is not None else []) if isinstance(n, ast.FunctionDef) and n.name == f.attr]
                if len(fn) != 1:
                    self.err("call of self.%s" % f.attr, e)
                selfenv = {k: v for k, v in env.items() if k.startswith("self.")}
                return self.inline(fn[0], [self.expr(a, env, facts) for a in e.args], selfenv, facts, e, method=True)
            v = self.expr(f.value, env, facts)
            if isinstance(v, Obj):
                if f.attr not in v.methods:
                    self.err("method %s of the aggregation object" % f.attr, e)
                fun, ptys, rty = v.methods[f.attr]
                args = [self.expr(a, env, facts) for a in e.args]
                if len(args) != len(ptys):
                    self.err("arity of %s" % src, e)
                terms = []
                for a, t in zip(args, ptys):
                    if isinstance(a, Ser) and t == "S" and not a.sq:
                        terms.append(a.term)
                    elif isinstance(a, Sc) and a.ty == t:
                        terms.append(a.term)
                    else:
                        self.err("argument of %s has type %s, expected %s" % (src, self.show_ty(a), t), e)
                return Sc(rty, "(%s %s)" % (fun, " ".join(terms)))
            if isinstance(v, Ser) and not e.args:
                s = self.path == "s"
                if f.attr == "sum":
                    return Sc("Q" if s else "VQ", "(%s P %s)" % (("p_sumsq" if v.sq else "p_sum") if s else ("v_sumsq" if v.sq else "v_sum"), v.term))
                if f.attr == "count" and not v.sq:
                    return Sc("Z" if s else "VZ", "(%s P %s)" % ("p_count" if s else "v_count", v.term))
            self.err("method call %s" % src, e)
        self.err("call %s" % src, e)

    def inline(self, fn, args, selfenv, facts, node, method=False):
        self.depth += 1
        if self.depth > 6:
            self.err("inlining too deep (recursion?)", node)
        params = [a.arg for a in fn.args.args]
        if fn.args.vararg or fn.args.kwarg or fn.args.kwonlyargs or fn.args.defaults or fn.decorator_list:
            self.err("signature of %s" % fn.name, node)
        if method:
            if not params or params[0] != "self":
                self.err("%s is not a method" % fn.name, node)
            params = params[1:]
        if len(params) != len(args):
            self.err("arity of the call of %s" % fn.name, node)
        env = dict(selfenv)
        env.update(zip(params, args))
        r = self.block(body_src(fn), env, facts)
        self.depth -= 1
        return r

    # ---------------------------------------------------------------------------------------------------- statements
    def none_test(self, test, env):
        """`x is None` / `x is not None` / `not ...` on a local that holds the optional parameter -> (name, polarity)"""
        pol = True
        while isinstance(test, ast.UnaryOp) and isinstance(test.op, ast.Not):
            test, pol = test.operand, not pol
        if isinstance(test, ast.Compare) and len(test.ops) == 1 and isinstance(test.ops[0], (ast.Is, ast.IsNot)) \
                and isinstance(test.left, ast.Name) and isinstance(test.comparators[0], ast.Constant) \
                and test.comparators[0].value is None:
            v = env.get(test.left.id)
            if isinstance(v, Sc) and isinstance(v.ty, tuple) and v.ty[0] == "O":
                return test.left.id, pol == isinstance(test.ops[0], ast.Is)
        return None

    def assign(self, tgt, v, env, node):
        if isinstance(tgt, ast.Name):
            env[tgt.id] = v
            return
        if isinstance(tgt, ast.Tuple):
            if not isinstance(v, Tup) or len(v.items) != len(tgt.elts):
                self.err("unpacking %s into %d names" % (self.show_ty(v), len(tgt.elts)), node)
            for t1, v1 in zip(tgt.elts, v.items):
                self.assign(t1, v1, env, node)
            return
        if isinstance(tgt, ast.Subscript) and isinstance(tgt.value, ast.Name) and ast.unparse(tgt.slice) == ":":
            old = env.get(tgt.value.id)                      # r[:] = k on a per-column Series
            if isinstance(old, Sc) and old.b == ("param",):
                self.err("%s[:] = ... updates in place an object the caller can see" % tgt.value.id, node)
            if isinstance(old, Sc) and old.ty in ("VQ", "VZ") and isinstance(v, Sc) and v.ty == "Z":
                k = Sc(ELEM[old.ty], v.term) if old.ty == "VZ" else Sc("Q", self.to_q(v))
                env[tgt.value.id] = Sc(old.ty, "(map (fun _ => %s) %s)" % (k.term, old.term))
                return
        self.err("assignment target %s" % ast.unparse(tgt), node)

    def fresh(self, base):
        self.fresh_k += 1
        return "%s%d" % (base, self.fresh_k)

    def assigned_in(self, stmts):
        """python names bound or updated in place by these statements, in textual order of the first such place"""
        found = []
        for st in stmts:
            for n in ast.walk(st):
                if isinstance(n, (ast.Assign, ast.AugAssign)):
                    for t in (n.targets if isinstance(n, ast.Assign) else [n.target]):
                        for x in ast.walk(t):
                            if isinstance(x, ast.Name):
                                found.append((x.lineno, x.col_offset, x.id))
                if isinstance(n, ast.Call) and isinstance(n.func, ast.Attribute) and isinstance(n.func.value, ast.Name) \
                        and n.func.attr in ("append", "popleft", "pop", "appendleft", "extend", "clear", "insert", "remove"):
                    found.append((n.func.value.lineno, n.func.value.col_offset, n.func.value.id))
        out = []
        for _, _, name in sorted(found):
            if name not in out:
                out.append(name)
        return out

    def popleft(self, name, env, node):
        lst = env.get(name)
        if not (is_list(lst) and lst.b == ("fresh",)):
            self.err("popleft on %s, which is not a local holding a fresh list" % name, node)
        if lst.cons is None:
            if lst.var:
                raise NeedSplit(name)
            self.err("%s.popleft(): the list is not known to be non-empty" % name, node)
        h, t = lst.cons
        env[name] = mk_list(t, var=bool(re.fullmatch(r"\w+", t)))
        return Ser(h)

    def block(self, stmts, env, facts, cont=None):
        """-> the value returned (at the end of the statements: cont(env), NoneV without a continuation)"""
        env = dict(env)
        for i, s in enumerate(stmts):
            rest = list(stmts[i + 1:])
            try:
                r = self.stmt(s, rest, env, facts, cont)
            except NeedSplit as ns:
                lst = env[ns.name]
                h, t = self.fresh(lst.term + "_h"), self.fresh(lst.term + "_t")
                env2 = dict(env)
                env2[ns.name] = mk_list("(%s :: %s)" % (h, t), cons=(h, t))
                some = self.block(list(stmts[i:]), env2, facts, cont)
                # an empty deque: IndexError
                return Opt("(match %s with [] => None | %s :: %s => %s end)" % (lst.term, h, t, self.lift(some, s)),
                           some.rty if isinstance(some, Opt) else getattr(some, "ty", None))
            if r is not None:
                return r
        return NoneV() if cont is None else cont(env)

    def stmt(self, s, rest, env, facts, cont):
        """one statement; updates env in place and returns None, or returns the value of the whole remaining block"""
        if isinstance(s, ast.Pass) or (isinstance(s, ast.Expr) and isinstance(s.value, ast.Constant)):
            return None
        if isinstance(s, ast.Return):
            return NoneV() if s.value is None else self.expr(s.value, env, facts)
        if isinstance(s, ast.Assign) and len(s.targets) == 1 and isinstance(s.targets[0], ast.Name) and isinstance(s.value, ast.Call) \
                and isinstance(s.value.func, ast.Attribute) and s.value.func.attr == "popleft" and isinstance(s.value.func.value, ast.Name) \
                and not s.value.args and not s.value.keywords:
            env[s.targets[0].id] = self.popleft(s.value.func.value.id, env, s)
            return None
        if isinstance(s, ast.Expr) and isinstance(s.value, ast.Call) and isinstance(s.value.func, ast.Attribute) \
                and s.value.func.attr == "popleft" and isinstance(s.value.func.value, ast.Name) and not s.value.args and not s.value.keywords:
            self.popleft(s.value.func.value.id, env, s)
            return None
        if isinstance(s, ast.Assign) and len(s.targets) == 1 and isinstance(s.targets[0], ast.Subscript) \
                and isinstance(s.targets[0].value, ast.Name) and is_list(env.get(s.targets[0].value.id)) \
                and isinstance(s.targets[0].slice, ast.Constant) and s.targets[0].slice.value == 0:
            name = s.targets[0].value.id                     # dfs[0] = <batch>
            x = self.expr(s.value, env, facts)
            lst = env[name]
            if not (isinstance(x, Ser) and not x.sq):
                self.err("%s[0] = %s" % (name, self.show_ty(x)), s)
            if lst.b != ("fresh",):
                self.err("%s[0] = ...: not a local holding a fresh list" % name, s)
            if lst.cons is None:
                if lst.var:
                    raise NeedSplit(name)
                self.err("%s[0] = ...: the list is not known to be non-empty" % name, s)
            env[name] = mk_list("(%s :: %s)" % (x.term, lst.cons[1]), cons=(x.term, lst.cons[1]))
            return None
        if isinstance(s, ast.Assign):
            v = self.expr(s.value, env, facts)
            if isinstance(s.value, ast.Name) and isinstance(v, Sc) and isinstance(v.ty, tuple) and v.ty[0] == "L":
                self.err("a second name for a list (a later append would be seen through both)", s)
            for tgt in s.targets:
                self.assign(tgt, v, env, s)
            return None
        if isinstance(s, ast.AugAssign):
            if not isinstance(s.target, ast.Name):
                self.err("augmented assignment to %s" % ast.unparse(s.target), s)
            cur = env.get(s.target.id)
            if not (isinstance(cur, Sc) and cur.ty in SCALARS):
                # `acc += x` on a pandas object updates it IN PLACE: the state the caller still holds (the one emitted
                # for the previous batch) would change under its feet.  On numbers it is a plain rebinding.
                self.err("augmented assignment to %s, which holds %s: an in-place update of an object the caller can see"
                         % (s.target.id, self.show_ty(cur) if cur is not None else "nothing"), s)
            if isinstance(s.op, ast.Pow):
                if not (isinstance(s.value, ast.Constant) and isinstance(s.value.value, int)):
                    self.err("power with an exponent that is not an integer literal", s)
                v = self.power(self.expr(s.target, env, facts), s.value.value, facts, s)
            else:
                v = self.binop(s.op, self.expr(s.target, env, facts), self.expr(s.value, env, facts), facts, s)
            self.assign(s.target, v, env, s)
            return None
        if isinstance(s, ast.Expr) and isinstance(s.value, ast.Call) and isinstance(s.value.func, ast.Attribute) \
                and s.value.func.attr == "append" and isinstance(s.value.func.value, ast.Name) \
                and len(s.value.args) == 1 and not s.value.keywords:
            name = s.value.func.value.id
            lst = env.get(name)
            x = self.expr(s.value.args[0], env, facts)
            if not (isinstance(lst, Sc) and isinstance(lst.ty, tuple) and lst.ty[0] == "L" and lst.b == ("fresh",)):
                self.err("append to %s, which is not a local holding a fresh list" % name, s)
            if not (isinstance(x, Ser) and not x.sq and lst.ty[1] == "S"):
                self.err("append of %s to a list of batches" % self.show_ty(x), s)
            if lst.cons is not None:
                t2 = "(%s ++ [%s])" % (lst.cons[1], x.term)
                env[name] = mk_list("(%s :: %s)" % (lst.cons[0], t2), cons=(lst.cons[0], t2))
            else:
                env[name] = mk_list("(%s ++ [%s])" % (lst.term, x.term))
            return None
        if isinstance(s, ast.If):
            nt = self.none_test(s.test, env)
            if nt is not None:
                name, none_first = nt
                opt = env[name]
                var = re.sub(r"\W", "_", opt.term) + "_v"
                e_none, e_some = dict(env), dict(env)
                e_none[name] = NoneV()
                e_some[name] = Sc(opt.ty[1], var)
                a = self.block(list(s.body if none_first else s.orelse) + rest, e_none, facts, cont)
                b = self.block(list(s.orelse if none_first else s.body) + rest, e_some, facts, cont)
                return self.mkmatch(opt.term, var, a, b, s)
            c = self.truth(self.expr(s.test, env, facts), s.test)
            if is_const(c):
                return self.block(list(s.body if c.b[1] else s.orelse) + rest, env, facts, cont)
            a = self.block(list(s.body) + rest, env, facts + implied(c, True), cont)
            b = self.block(list(s.orelse) + rest, env, facts + implied(c, False), cont)
            return self.mkif(c, a, b, s)
        if isinstance(s, ast.While):
            return self.loop(s, rest, env, facts, cont)
        self.err("statement form %s: %s" % (type(s).__name__, ast.unparse(s).split("\n")[0]), s)

    def loop(self, s, rest, env, facts, cont):
        """`while c: body` followed by `rest`: a recursive function on explicit fuel over the variables the body updates
        (loop-carried, in order of appearance in the body, so that renaming them changes nothing).  One call = the test, then
        either one run of the body ending in the recursive call, or the rest of the enclosing function (the exit)."""
        if s.orelse or self.outer is None or self.in_loop:
            self.err("loop form not supported (else clause / a loop inside a loop / no enclosing definition)", s)
        if any(isinstance(n, (ast.Break, ast.Continue)) for n in ast.walk(s)):
            self.err("break / continue in a loop", s)
        carried = [n for n in self.assigned_in(s.body) if n in env]
        if not carried:
            self.err("the loop updates nothing", s)
        name = "%s_loop" % self.outer[2]
        binders, decls, init = [], [], []
        env2 = dict(env)
        for k, n in enumerate(carried):
            v0, w = env[n], "w%d" % k
            if is_list(v0) and v0.b == ("fresh",):
                env2[n] = mk_list(w, var=True)
            elif isinstance(v0, Sc) and v0.ty in ("Z", "Q"):
                env2[n] = Sc(v0.ty, w)
            else:
                self.err("loop-carried variable %s holds %s" % (n, self.show_ty(v0)), s)
            binders.append(w)
            decls.append("(%s : %s)" % (w, ty_coq(v0.ty, self.path)))
            init.append(v0.term)
        lists = [v for v in (env[n] for n in carried) if is_list(v)]
        if not lists:
            self.err("no list among the loop-carried variables: no fuel", s)
        try:
            c = self.truth(self.expr(s.test, env2, facts), s.test)
        except NeedSplit:
            self.err("the loop test needs the head of a list", s)
        if is_const(c):
            self.err("constant loop test", s)
        call = "(%s %s fuel %%s)" % (name, " ".join(self.outer[0]))
        saved_k, self.fresh_k = self.fresh_k, 0
        self.in_loop = True

        def recur(envx):
            return Opt(call % " ".join(envx[n].term for n in carried))
        body = self.block(list(s.body), env2, facts + implied(c, True), recur)
        exit_ = self.block(rest, env2, facts + implied(c, False), cont)
        rty = exit_.rty if isinstance(exit_, Opt) else getattr(exit_, "ty", None)
        if rty is None or rty == "None":
            self.err("the code after the loop returns nothing", s)
        term = "(if %s then %s else %s)" % (c.term, self.lift(body, s), self.lift(exit_, s))
        self.in_loop = False
        self.fresh_k = saved_k
        # the rest of the function is translated once per path that reaches the loop: the same loop every time
        if self.loops and self.loops[0] != (name, decls, rty, term):
            self.err("a second, different loop", s)
        self.loops = [(name, decls, rty, term)]
        # every run of the body either removes a frame from the first list or makes the test false next time: the
        # bridge lemma proves that this fuel is enough
        fuel = "(S (S (length %s)))" % lists[0].term
        return Opt("(%s %s %s %s)" % (name, " ".join(self.outer[0]), fuel, " ".join(init)), rty)


# ----------------------------------------------------------------------------------------------------------- schema
# (class or None, function) -> per path: ([parameter types by position, without self], result type, {self attribute: type})
S_ = "S"
SCHEMA = [
    ("Sum", "on_new", {"s": (["Q", S_], T("Q", "Q"), {}), "v": (["VQ", S_], T("VQ", "VQ"), {})}),
    ("Sum", "on_old", {"s": (["Q", S_], T("Q", "Q"), {}), "v": (["VQ", S_], T("VQ", "VQ"), {})}),
    ("Sum", "initial", {"s": ([S_], "Q", {}), "v": ([S_], "VQ", {})}),
    ("Count", "on_new", {"s": (["Z", S_], T("Z", "Z"), {}), "v": (["VZ", S_], T("VZ", "VZ"), {})}),
    ("Count", "on_old", {"s": (["Z", S_], T("Z", "Z"), {}), "v": (["VZ", S_], T("VZ", "VZ"), {})}),
    ("Count", "initial", {"s": ([S_], "Z", {}), "v": ([S_], "VZ", {})}),
    ("Size", "on_new", {"s": (["Z", S_], T("Z", "Z"), {}), "v": (["Z", S_], T("Z", "Z"), {})}),
    ("Size", "on_old", {"s": (["Z", S_], T("Z", "Z"), {}), "v": (["Z", S_], T("Z", "Z"), {})}),
    ("Size", "initial", {"s": ([S_], "Z", {}), "v": ([S_], "Z", {})}),
    (None, "_divide", {"s": (["Q", "Z"], "F", {}), "v": (["VQ", "VZ"], "VF", {})}),
    ("Mean", "on_new", {"s": ([T("Q", "Z"), S_], T(T("Q", "Z"), "F"), {}), "v": ([T("VQ", "VZ"), S_], T(T("VQ", "VZ"), "VF"), {})}),
    ("Mean", "on_old", {"s": ([T("Q", "Z"), S_], T(T("Q", "Z"), "F"), {}), "v": ([T("VQ", "VZ"), S_], T(T("VQ", "VZ"), "VF"), {})}),
    ("Mean", "initial", {"s": ([S_], T("Q", "Z"), {}), "v": ([S_], T("VQ", "VZ"), {})}),
    ("Var", "_compute_result", {"s": (["Q", "Q", "Z"], "F", {"ddof": "Z"}), "v": (["VQ", "VQ", "VZ"], "VF", {"ddof": "Z"})}),
    ("Var", "on_new", {"s": ([T("Q", "Q", "Z"), S_], T(T("Q", "Q", "Z"), "F"), {"ddof": "Z"}),
                       "v": ([T("VQ", "VQ", "VZ"), S_], T(T("VQ", "VQ", "VZ"), "VF"), {"ddof": "Z"})}),
    ("Var", "on_old", {"s": ([T("Q", "Q", "Z"), S_], T(T("Q", "Q", "Z"), "F"), {"ddof": "Z"}),
                       "v": ([T("VQ", "VQ", "VZ"), S_], T(T("VQ", "VQ", "VZ"), "VF"), {"ddof": "Z"})}),
    ("Var", "initial", {"s": ([S_], T("Q", "Q", "Z"), {}), "v": ([S_], T("VQ", "VQ", "VZ"), {})}),
]
FILES = ["KA_Sum", "KA_Count", "KA_Size", "KA_Mean", "KA_Var", "KA_Accumulator", "KA_DiffIloc"]
ORDER = FILES

HEADER = """(* GENERATED by harness/gen_aggs.py from streamz/dataframe/aggregations.py of the source under test, on every run - do not edit.
   Bridged to the hand-written models in Base/BridgeAggs.v (DF/Agg.v) and Base/BridgeAggsWindow.v (DF/Window.v).

   ASSUMPTIONS of the translation (statements about python / pandas / numpy, exercised by the correspondence checks):
%s *)
From Coq Require Import List ZArith QArith Qcanon Bool.
From SZ Require Import Base.AggPrims.
Import ListNotations.
"""


def cq(s):
    return s.replace("(*", "( *").replace("*)", "* )")


def render(v):
    if isinstance(v, Tup):
        return "(" + ", ".join(render(i) for i in v.items) + ")"
    if isinstance(v, Sc):
        return v.term
    raise KernelError("a %s cannot be returned" % getattr(v, "ty", type(v).__name__))


def param_value(name, ty, binders, lets):
    """a parameter as a symbolic value; tuple parameters are taken apart by a let"""
    if isinstance(ty, tuple) and ty[0] == "T":
        items = [param_value("%s_%d" % (name, i), t, None, lets) for i, t in enumerate(ty[1])]
        if binders is not None:
            lets.append("let '%s := %s in" % (pattern(name, ty), name))
        return Tup(items)
    if ty == "S":
        return Ser(name)
    return Sc(ty, name, b=("param",) if ty in VECTORS else None)


def pattern(name, ty):
    if isinstance(ty, tuple) and ty[0] == "T":
        return "(" + ", ".join(pattern("%s_%d" % (name, i), t) for i, t in enumerate(ty[1])) + ")"
    return name


def gen_function(module, cls_name, fn_name, path, sig):
    ptys, rty, selfattrs = sig
    what = "%s%s [%s path]" % ((cls_name + ".") if cls_name else "", fn_name, "scalar" if path == "s" else "vector")
    cls = find_class(module, cls_name) if cls_name else None
    scope = cls.body if cls is not None else module.body
    fns = [n for n in scope if isinstance(n, ast.FunctionDef) and n.name == fn_name]
    if len(fns) != 1:
        raise KernelError("%s: function not found" % what)
    fn = fns[0]
    if fn.decorator_list or fn.args.vararg or fn.args.kwarg or fn.args.kwonlyargs or fn.args.defaults:
        raise KernelError("%s: decorators / default or variadic parameters" % what)
    params = [a.arg for a in fn.args.args]
    if cls is not None:
        if not params or params[0] != "self":
            raise KernelError("%s: not a method" % what)
        params = params[1:]
    if len(params) != len(ptys):
        raise KernelError("%s: %d parameters, the schema has %d" % (what, len(params), len(ptys)))
    tr = Tr(module, path, what)
    env, binders, lets = {}, [], []
    if cls is not None:
        env["self.__class__"] = cls
    for a, t in sorted(selfattrs.items()):
        env["self." + a] = Sc(t, a)
        binders.append("(%s : %s)" % (a, ty_coq(t, path)))
    for i, (p, t) in enumerate(zip(params, ptys)):
        name = "a%d" % i                                   # positional: the python names do not reach the output
        env[p] = param_value(name, t, binders, lets)
        binders.append("(%s : %s)" % (name, ty_coq(t, path)))
    res = tr.coerce(tr.block(body_src(fn), env, []), rty, fn)
    name = "gen_%s%s%s" % ((cls_name.lower() + "_") if cls_name else "", fn_name.strip("_"), "" if path == "s" else "_v")
    ops = "(P : pd_ops)" if path == "s" else "(P : pdv_ops)"
    body = "".join("  %s\n" % l for l in lets) + "  " + render(res)
    src = "\n".join("     " + l for l in cq(ast.unparse(fn)).split("\n"))
    return "(* %s\n%s *)\nDefinition %s %s %s : %s :=\n%s.\n" % (cq(what), src, name, ops, " ".join(binders), ty_coq(rty, path), body)


def check_var_init(module):
    """`self.ddof` is the constructor argument (the generated definitions take it as the parameter ddof : Z)"""
    cls = find_class(module, "Var")
    fns = [n for n in cls.body if isinstance(n, ast.FunctionDef) and n.name == "__init__"]
    ok = len(fns) == 1 and not fns[0].decorator_list and ast.unparse(fns[0].args) == "self, ddof=1" \
        and [ast.unparse(x) for x in body_src(fns[0])] == ["self.ddof = ddof"]
    if not ok:
        raise KernelError("Var.__init__: expected `def __init__(self, ddof=1): self.ddof = ddof`")
    others = [n for c in ast.walk(module) if isinstance(c, ast.ClassDef) and c.name == "Var" for n in ast.walk(c)
              if isinstance(n, (ast.Assign, ast.AugAssign, ast.AnnAssign)) and "self.ddof" in
              [ast.unparse(t) for t in (n.targets if isinstance(n, ast.Assign) else [n.target])]]
    if len(others) != 1:
        raise KernelError("Var: self.ddof is assigned outside __init__")


def gen_accumulator(module):
    """accumulator(acc, new, agg): generic in the state / result types and in the aggregation object"""
    fns = [n for n in module.body if isinstance(n, ast.FunctionDef) and n.name == "accumulator"]
    if len(fns) != 1:
        raise KernelError("accumulator: function not found")
    fn = fns[0]
    params = [a.arg for a in fn.args.args]
    if len(params) != 3 or fn.args.vararg or fn.args.kwarg or fn.args.kwonlyargs or len(fn.args.defaults) > 1:
        raise KernelError("accumulator: signature (acc, new, agg=None) expected")
    tr = Tr(module, "s", "accumulator")
    st, sr = ("X", "St"), ("X", "(St * R)%type")
    env = {params[0]: Sc(("O", st), "a0"), params[1]: Ser("a1"),
           params[2]: Obj({"initial": ("agg_initial", ["S"], st), "on_new": ("agg_on_new", [st, "S"], sr)})}
    res = tr.block(body_src(fn), env, [])
    if not (isinstance(res, Sc) and res.ty == sr):
        raise KernelError("accumulator: the result is not what agg.on_new returns")
    src = "\n".join("     " + l for l in cq(ast.unparse(fn)).split("\n"))
    return ("(* accumulator\n%s *)\nDefinition gen_accumulator {B St R : Type} (agg_initial : B -> St) (agg_on_new : St -> B -> St * R)"
            " (a0 : option St) (a1 : B) : St * R :=\n  %s.\n" % (src, res.term))


def gen_diff_expanding(module):
    fns = [n for n in module.body if isinstance(n, ast.FunctionDef) and n.name == "diff_expanding"]
    if len(fns) != 1:
        raise KernelError("diff_expanding: function not found")
    fn = fns[0]
    params = [a.arg for a in fn.args.args]
    if len(params) != 3 or fn.args.vararg or fn.args.kwarg or fn.args.kwonlyargs:
        raise KernelError("diff_expanding: signature (dfs, new, window=None) expected")
    tr = Tr(module, "s", "diff_expanding")
    lt = ("L", "S")
    env = {params[0]: Sc(lt, "a0"), params[1]: Ser("a1"), params[2]: NoneV()}
    res = tr.block(body_src(fn), env, [])
    if not (isinstance(res, Tup) and len(res.items) == 2 and all(isinstance(i, Sc) and i.ty == lt for i in res.items)):
        raise KernelError("diff_expanding: the result is not a pair of lists of batches")
    src = "\n".join("     " + l for l in cq(ast.unparse(fn)).split("\n"))
    return ("(* diff_expanding\n%s *)\nDefinition gen_diff_expanding (P : pd_ops) (a0 : list (ser P)) (a1 : ser P) : list (ser P) * list (ser P) :=\n  %s.\n"
            % (src, render(res)))


def strip_docstring(fn):
    fn = ast.parse(ast.unparse(fn)).body[0]
    fn.body = body_src(fn) or [ast.Pass()]
    return ast.unparse(fn)


def gen_diff_iloc(module):
    """diff_iloc(dfs, new, window): the `while n > 0` loop becomes a recursive function on explicit fuel"""
    fns = [n for n in module.body if isinstance(n, ast.FunctionDef) and n.name == "diff_iloc"]
    if len(fns) != 1:
        raise KernelError("diff_iloc: function not found")
    fn = fns[0]
    params = [a.arg for a in fn.args.args]
    if len(params) != 3 or fn.args.vararg or fn.args.kwarg or fn.args.kwonlyargs or fn.decorator_list:
        raise KernelError("diff_iloc: signature (dfs, new, window=None) expected")
    tr = Tr(module, "s", "diff_iloc")
    decl = "(P : pd_ops) (a0 : list (ser P)) (a1 : ser P) (a2 : Z)"
    tr.outer = (["P", "a0", "a1", "a2"], decl, "gen_diff_iloc")
    env = {params[0]: Sc(LIST_S, "a0"), params[1]: Ser("a1"), params[2]: Sc("Z", "a2")}
    res = tr.block(body_src(fn), env, [])
    rty = T(LIST_S, LIST_S)
    if not (isinstance(res, Opt) and res.rty == rty) or len(tr.loops) != 1:
        raise KernelError("diff_iloc: expected one loop and a pair of lists of batches as the result")
    name, decls, lrty, term = tr.loops[0]
    if lrty != rty:
        raise KernelError("diff_iloc: the loop does not end in the function's result")
    src = "\n".join("     " + l for l in cq(strip_docstring(fn)).split("\n"))
    rt = ty_coq(rty, "s")
    return ("(* diff_iloc\n%s\n   The loop: recursion on fuel; one call = the test, then one run of the body or the exit.  None = IndexError\n"
            "   (head of an empty deque) or out of fuel; the bridge proves that neither happens. *)\n"
            "Fixpoint %s %s (fuel : nat) %s {struct fuel} : option %s :=\n  match fuel with\n  | O => None\n  | S fuel =>\n    %s\n  end.\n\n"
            "Definition gen_diff_iloc %s : option %s :=\n  %s.\n" % (src, name, decl, " ".join(decls), rt, term, decl, rt, res.term))


def generate_all(module, paths=("s", "v")):
    """-> {file stem: (text or None, error or None)}"""
    res = {}
    head = HEADER % cq(MAPPING)
    groups = {"KA_Sum": ["Sum"], "KA_Count": ["Count"], "KA_Size": ["Size"], "KA_Mean": [None, "Mean"], "KA_Var": ["Var"]}
    for stem, classes in groups.items():
        try:
            parts = []
            for cls_name, fn_name, sigs in SCHEMA:
                if cls_name in classes:
                    for path in paths:
                        if path in sigs:
                            parts.append(gen_function(module, cls_name, fn_name, path, sigs[path]))
            if "Var" in classes:
                check_var_init(module)
            res[stem] = (head + "\n" + "\n".join(parts), None)
        except KernelError as e:
            res[stem] = (None, str(e))
    try:
        res["KA_Accumulator"] = (head + "\n" + gen_accumulator(module) + "\n" + gen_diff_expanding(module), None)
    except KernelError as e:
        res["KA_Accumulator"] = (None, str(e))
    try:
        res["KA_DiffIloc"] = (head + "\n" + gen_diff_iloc(module), None)
    except KernelError as e:
        res["KA_DiffIloc"] = (None, str(e))
    return res


if __name__ == "__main__":
    import os
    import sys
    repo = os.environ.get("VERIF_REPO", "/repo")
    mod = ast.parse(open(os.path.join(repo, "streamz", "dataframe", "aggregations.py")).read())
    for stem, (text, err) in generate_all(mod).items():
        if len(sys.argv) > 1 and stem not in sys.argv[1:]:
            continue
        print("(* ==== %s ==== *)" % stem)
        print(text if err is None else "ERROR: " + err)
