"""Fail-closed translator: regenerates coq/theories/Gen/Kernels.v from /repo's CURRENT source on every run.

Four places where a property hinges on a few lines of integer arithmetic are translated statement by
statement from the Python AST into Gallina over Z.  Base/KernelBridge.v (hand written, in the cone of the
properties concerned) proves `generated kernel = kernel used by the hand model`, so an edit such as `>` -> `>=`
or `offset + 1` -> `offset` breaks a PROOF, not merely a test.  Anything the translator does not understand
aborts with KernelError ("kernel no longer translatable"), which the checks report as a broken obligation.

Accepted expression language: names, self.<attr>, self.<attr>[<name>], int literals, + - * % //, unary -, comparisons
(< <= > >= == != , `is None` / `is not None` on option-typed attributes), and/or/not, max/min, conditional
expressions.  Statements: straight-line assignments and `if` without loops.
"""
import ast
import os
import re
import sys

REPO = os.environ.get("VERIF_REPO", "/repo")
VERIF = os.path.dirname(os.path.dirname(os.path.abspath(__file__)))
OUT = os.path.join(VERIF, "coq", "theories", "Gen", "Kernels.v")


class KernelError(Exception):
    pass


def find_class(tree, name):
    for n in ast.walk(tree):
        if isinstance(n, ast.ClassDef) and n.name == name:
            return n
    raise KernelError("class %s not found" % name)


def find_func(node, name):
    for n in ast.walk(node):
        if isinstance(n, (ast.FunctionDef, ast.AsyncFunctionDef)) and n.name == name:
            return n
    raise KernelError("function %s not found" % name)


def conj(parts):
    """conjunction of Coq bool terms with the constants folded"""
    parts = [p for p in parts if p != "true"]
    if "false" in parts:
        return "false"
    if not parts:
        return "true"
    return parts[0] if len(parts) == 1 else "(" + " && ".join(parts) + ")"


def neg(c):
    if c in ("true", "false"):
        return "false" if c == "true" else "true"
    return "(negb %s)" % c


class Tr:
    """expression translator with a renaming environment (python source text of a name / attribute / test -> Coq term).
    `and` / `or` are short-circuit: an operand after a constant-false (constant-true) one is not looked at."""

    def __init__(self, env):
        self.env = env

    def key(self, e):
        return ast.unparse(e)

    def expr(self, e):
        k = self.key(e)
        if k in self.env:
            return self.env[k]
        if isinstance(e, ast.Constant) and isinstance(e.value, int) and not isinstance(e.value, bool):
            return "(%d)" % e.value
        if isinstance(e, ast.UnaryOp) and isinstance(e.op, ast.USub):
            return "(- %s)" % self.expr(e.operand)
        if isinstance(e, ast.BinOp):
            ops = {ast.Add: "+", ast.Sub: "-", ast.Mult: "*", ast.Mod: "mod", ast.FloorDiv: "/"}
            if type(e.op) not in ops:
                raise KernelError("operator %s" % ast.dump(e.op))
            return "(%s %s %s)" % (self.expr(e.left), ops[type(e.op)], self.expr(e.right))
        if isinstance(e, ast.Call) and isinstance(e.func, ast.Name) and e.func.id in ("max", "min") and len(e.args) == 2 and not e.keywords:
            return "(Z.%s %s %s)" % (e.func.id, self.expr(e.args[0]), self.expr(e.args[1]))
        if isinstance(e, ast.IfExp):
            c = self.bexpr(e.test)
            if c in ("true", "false"):
                return self.expr(e.body if c == "true" else e.orelse)
            return "(if %s then %s else %s)" % (c, self.expr(e.body), self.expr(e.orelse))
        raise KernelError("expression not translatable: %s" % k)

    def bexpr(self, e):
        k = self.key(e)
        if k in self.env:
            return self.env[k]
        if isinstance(e, ast.Constant) and isinstance(e.value, bool):
            return "true" if e.value else "false"
        if isinstance(e, ast.BoolOp):
            is_and = isinstance(e.op, ast.And)
            stop = "false" if is_and else "true"
            parts = []
            for v in e.values:
                c = self.bexpr(v)
                if c == stop:                     # short circuit: the operands after it are never evaluated
                    return stop if not parts else \
                        ("(" + (" && " if is_and else " || ").join(parts + [stop]) + ")")
                if c in ("true", "false"):
                    continue                      # the neutral constant
                parts.append(c)
            if not parts:
                return "true" if is_and else "false"
            return parts[0] if len(parts) == 1 else "(" + (" && " if is_and else " || ").join(parts) + ")"
        if isinstance(e, ast.UnaryOp) and isinstance(e.op, ast.Not):
            return neg(self.bexpr(e.operand))
        if isinstance(e, ast.IfExp):
            c = self.bexpr(e.test)
            if c in ("true", "false"):
                return self.bexpr(e.body if c == "true" else e.orelse)
            return "(if %s then %s else %s)" % (c, self.bexpr(e.body), self.bexpr(e.orelse))
        if isinstance(e, ast.Compare) and len(e.ops) == 1:
            a, b = e.left, e.comparators[0]
            op = e.ops[0]
            table = {ast.Lt: "(%s <? %s)", ast.LtE: "(%s <=? %s)", ast.Gt: "(%s >? %s)", ast.GtE: "(%s >=? %s)",
                     ast.Eq: "(%s =? %s)", ast.NotEq: "(negb (%s =? %s))"}
            if type(op) in table:
                return table[type(op)] % (self.expr(a), self.expr(b))
            raise KernelError("comparison %s" % k)
        raise KernelError("condition not translatable: %s" % k)


def body_src(fn):
    return [s for s in fn.body if not (isinstance(s, ast.Expr) and isinstance(getattr(s, "value", None), ast.Constant))]


def root_text(e):
    """self.positions[partition] -> self.positions ; self.next -> self.next ; out -> out"""
    while isinstance(e, ast.Subscript):
        e = e.value
    return ast.unparse(e)


class Event:
    def __init__(self, kind, pc, node, env, func=None):
        self.kind, self.pc, self.node, self.env, self.func = kind, pc, node, env, func

    def guard(self, skip=()):
        return conj([c for c, origin in self.pc if origin not in skip])

    def arg(self, i):
        return Tr(self.env).expr(self.node.args[i])


class Straight:
    """Symbolic execution of loop-free integer code (the body of a kernel).

    `env` maps the python source text of an lvalue (a local, self.<attr>, self.<attr>[<name>]), of a call such as
    `time()` or of a test the kernel fixes, to a Coq term; integer lvalues listed in it are TRACKED: every assignment to
    one is followed (in source order, through `if`s: the two branches are merged with a conditional).  A local that is
    bound to an integer / boolean expression is resolved where it is used (its value at the time of the binding), so
    introducing, renaming or removing such locals does not change what is generated.  Calls made as statements (and calls
    bound to a local that is not arithmetic) are recorded as events together with the condition under which they are
    reached; so are `return` / `continue` and the end of the body.  Anything else - loops other than the ones a kernel
    asks to be recorded, writes to another element of a tracked container - raises KernelError."""

    def __init__(self, what, env, helpers=None, record_loops=False, calls=()):
        self.what = what
        self.calls = tuple(calls)            # the calls the body may make as statements (anything else: KernelError)
        self.env = dict(env)
        self.tracked = set(k for k in env)
        self.lets = []
        self.events = []
        self.helpers = helpers or {}
        self.record_loops = record_loops
        self.k = 0

    def err(self, text, node=None):
        where = " (line %d)" % node.lineno if node is not None and hasattr(node, "lineno") else ""
        raise KernelError("%s: %s%s" % (self.what, text, where))

    def let(self, base, term):
        if re.fullmatch(r"[A-Za-z_][A-Za-z_0-9]*|\(-?\d+\)|true|false", term):
            return term
        self.k += 1
        name = re.sub(r"[^A-Za-z0-9_]", "_", base).strip("_") + "_%d" % self.k
        self.lets.append((name, term))
        return name

    def close(self, term):
        """`let`s the term depends on, in order, then the term"""
        need = set()

        def visit(t):
            for name, body in self.lets:
                if name not in need and re.search(r"\b%s\b" % re.escape(name), t):
                    need.add(name)
                    visit(body)
        visit(term)
        return "".join("let %s := %s in\n  " % (n, b) for n, b in self.lets if n in need) + term

    def event(self, kind, pc, node, func=None):
        self.events.append(Event(kind, list(pc), node, dict(self.env), func))

    def exits(self, s):
        return any(isinstance(n, (ast.Return, ast.Continue, ast.Break, ast.Raise)) for n in ast.walk(s))

    def value(self, e):
        """-> ('Z' | 'bool', term) or None when the expression is not arithmetic"""
        tr = Tr(self.env)
        for kind, f in (("Z", tr.expr), ("bool", tr.bexpr)):
            try:
                return kind, f(e)
            except KernelError:
                pass
        return None

    def calls_in(self, e, pc):
        for n in ast.walk(e):
            if isinstance(n, ast.Call):
                self.event("call", pc, n, ast.unparse(n.func))

    def assign(self, tgt, v, pc, node):
        key = ast.unparse(tgt)
        if isinstance(tgt, ast.Name) or key in self.tracked:
            if v is None:
                if key in self.tracked:
                    self.err("%s is assigned something that is not integer arithmetic" % key, node)
                self.env.pop(key, None)            # a local that is not arithmetic: unknown from here on
                return
            self.env[key] = self.let(key, v[1])
            return
        if isinstance(tgt, (ast.Attribute, ast.Subscript)):
            if any(root_text(ast.parse(k, mode="eval").body) == root_text(tgt) for k in self.tracked
                   if "[" in k or "." in k):
                self.err("assignment to %s, which overlaps a tracked location" % key, node)
            return                                  # an attribute the kernel does not observe
        self.err("assignment target %s" % key, node)

    def stmt(self, s, pc):
        if isinstance(s, ast.Pass) or (isinstance(s, ast.Expr) and isinstance(s.value, ast.Constant)):
            return
        if isinstance(s, ast.Assign) and len(s.targets) == 1:
            tgt = s.targets[0]
            if isinstance(tgt, ast.Tuple):
                if isinstance(s.value, ast.Tuple) and len(s.value.elts) == len(tgt.elts):
                    vals = [self.value(v) for v in s.value.elts]     # the whole right-hand side first
                    for v0 in s.value.elts:
                        self.calls_in(v0, pc)
                    for t1, v in zip(tgt.elts, vals):
                        self.assign(t1, v, pc, s)
                    return
                self.calls_in(s.value, pc)
                for t1 in tgt.elts:
                    self.assign(t1, None, pc, s)
                return
            v = self.value(s.value)
            if v is None:
                self.calls_in(s.value, pc)
            self.assign(tgt, v, pc, s)
            return
        if isinstance(s, ast.AugAssign):
            bop = ast.BinOp(left=s.target, op=s.op, right=s.value)
            v = self.value(ast.fix_missing_locations(ast.copy_location(bop, s)))
            if v is None and ast.unparse(s.target) not in self.tracked and not isinstance(s.target, ast.Name):
                return
            self.assign(s.target, v, pc, s)
            return
        if isinstance(s, ast.Expr):
            v = s.value
            if isinstance(v, (ast.Yield, ast.Await)) and v.value is not None:
                v = v.value
            if isinstance(v, ast.Call):
                f = ast.unparse(v.func)
                if f.startswith("self.") and f[5:] in self.helpers and not v.args and not v.keywords:
                    self.event("helper", pc, v, f)
                    fn = self.helpers[f[5:]]
                    if self.exits(fn):
                        self.err("helper %s has an early exit" % f, s)
                    self.run(body_src(fn), pc, top=False)
                    return
                if any(root_text(ast.parse(k, mode="eval").body) == root_text(v.func.value) for k in self.tracked
                       if isinstance(v.func, ast.Attribute) and ("[" in k)):
                    self.err("call of %s on a tracked container" % f, s)
                if f not in self.calls:
                    self.err("call of %s as a statement (the kernel expects only %s)" % (f, ", ".join(self.calls) or "none"), s)
                self.event("call", pc, v, f)
                return
            self.err("statement %s" % ast.unparse(s), s)
        if isinstance(s, ast.If):
            c = Tr(self.env).bexpr(s.test)
            if c in ("true", "false"):
                self.run(list(s.body if c == "true" else s.orelse), pc, top=False)
                return
            saved = dict(self.env)
            self.run(list(s.body), pc + [(c, s)], top=False)
            e1 = self.env
            self.env = dict(saved)
            self.run(list(s.orelse), pc + [(neg(c), s)], top=False)
            e2 = self.env
            merged = {}
            for k in list(e1) + [k for k in e2 if k not in e1]:
                if k in e1 and k in e2:
                    merged[k] = e1[k] if e1[k] == e2[k] else self.let(k, "if %s then %s else %s" % (c, e1[k], e2[k]))
                elif k in self.tracked:
                    self.err("%s is lost in one branch" % k, s)
            self.env = merged
            return
        if isinstance(s, ast.For) and self.record_loops and not s.orelse:
            self.event("for", pc, s, ast.unparse(s.iter))
            return
        self.err("statement form %s: %s" % (type(s).__name__, ast.unparse(s).split("\n")[0]), s)

    def run(self, stmts, pc=(), top=True):
        pc = list(pc)
        for i, s in enumerate(stmts):
            if isinstance(s, (ast.Return, ast.Continue)):
                if not top:
                    self.err("early exit inside a merged branch", s)
                if isinstance(s, ast.Return) and s.value is not None:
                    self.calls_in(s.value, pc)
                self.event("return" if isinstance(s, ast.Return) else "continue", pc, s)
                return
            if isinstance(s, ast.If) and self.exits(s):
                if not top:
                    self.err("early exit inside a merged branch", s)
                c = Tr(self.env).bexpr(s.test)
                saved = dict(self.env)
                for branch, lit in ((s.body, c), (s.orelse, neg(c))):
                    if lit == "false":
                        continue
                    self.env = dict(saved)
                    self.run(list(branch) + list(stmts[i + 1:]), pc + ([] if lit == "true" else [(lit, s)]), top=True)
                return
            self.stmt(s, pc)
        if top:
            self.event("end", pc, None)

    def select(self, key):
        """the final value of a tracked location over all the paths through the body"""
        ends = [e for e in self.events if e.kind in ("end", "return", "continue")]
        if not ends:
            self.err("no path reaches the end")
        vals = [(e.guard(), e.env.get(key)) for e in ends]
        if any(v is None for _, v in vals):
            self.err("%s is not defined on every path" % key)
        term = vals[-1][1]
        for g, v in reversed(vals[:-1]):
            if v != term:
                term = "(if %s then %s else %s)" % (g, v, term)
        return term

    def the(self, kind, func, what):
        ev = [e for e in self.events if e.kind == kind and (func is None or e.func == func)]
        if len(ev) != 1:
            self.err("expected exactly one %s, found %d" % (what, len(ev)))
        return ev[0]


def kernel_rate_limit(core):
    """rate_limit.update: the slot reservation `self.next = max(now, self.next) + self.interval`, the condition and the
    length of the sleep, and the order sleep -> emission"""
    fn = find_func(find_class(core, "rate_limit"), "update")
    sx = Straight("rate_limit.update", {"time()": "now", "self.next": "next", "self.interval": "interval"},
                  calls=("self._retain_refs", "gen.sleep", "self._emit", "self._release_refs", "self._wait_for_turn", "self._leave"))
    sx.run(body_src(fn))
    sleep = sx.the("call", "gen.sleep", "gen.sleep(...)")
    emit = sx.the("call", "self._emit", "self._emit(...)")
    if len(sleep.node.args) != 1 or sleep.node.keywords:
        raise KernelError("rate_limit.update: gen.sleep takes one argument")
    if sx.events.index(emit) < sx.events.index(sleep) or emit.pc:
        raise KernelError("rate_limit.update: the emission must be unconditional and come after the (conditional) sleep")
    # (the queueing behind earlier arrivals, _take_turn / _leave_in_turn, is not arithmetic: it must sit between the
    #  slot's sleep and the emission, unconditionally)
    turn = [e for e in sx.events if e.kind == "call" and e.func == "self._wait_for_turn"]
    leave = [e for e in sx.events if e.kind == "call" and e.func == "self._leave"]
    if turn or leave:
        if len(turn) != 1 or turn[0].pc or not (sx.events.index(sleep) < sx.events.index(turn[0]) < sx.events.index(emit)):
            raise KernelError("rate_limit.update: _wait_for_turn must be called once, unconditionally, between the sleep and the emission")
        # the departure is noted (and the next element let go) in the same breath as the hand-over: nothing but the call
        # of _leave may stand between the wait and the emission
        if len(leave) != 1 or leave[0].pc or sx.events.index(leave[0]) != sx.events.index(turn[0]) + 1 or sx.events.index(emit) != sx.events.index(leave[0]) + 1:
            raise KernelError("rate_limit.update: _leave must be called once, unconditionally, directly between _wait_for_turn and the emission")
    if sleep.guard() == "true":
        raise KernelError("rate_limit.update: the sleep is unconditional")
    return ("(* streamz/core.py rate_limit.update *)\n"
            "Definition gen_rl_next (now next interval : Z) : Z :=\n  %s.\n"
            "Definition gen_rl_must_sleep (now next : Z) : bool :=\n  %s.\n"
            "Definition gen_rl_sleep_for (now next : Z) : Z :=\n  %s.\n"
            % (sx.close(sx.select("self.next")), sx.close(sleep.guard()), sx.close(sleep.arg(0))))


def kernel_refcounter(core):
    cls = find_class(core, "RefCounter")
    sr = Straight("RefCounter.retain", {"self.count": "count", "n": "n"})
    sr.run(body_src(find_func(cls, "retain")))
    if [e for e in sr.events if e.kind == "call"]:
        raise KernelError("RefCounter.retain calls something")
    # the callback is present in our model (`self.cb` is truthy)
    sl = Straight("RefCounter.release", {"self.count": "count", "n": "n", "self.cb": "true"}, calls=("self.loop.add_callback",))
    sl.run(body_src(find_func(cls, "release")))
    cb = sl.the("call", "self.loop.add_callback", "self.loop.add_callback(...)")
    if [ast.unparse(a) for a in cb.node.args] != ["self.cb"] or cb.node.keywords:
        raise KernelError("RefCounter.release does not schedule self.cb")
    if cb.env.get("self.count") != sl.select("self.count"):
        raise KernelError("RefCounter.release: the count changes after the callback is scheduled")
    return ("(* streamz/core.py RefCounter.retain / release *)\n"
            "Definition gen_rc_retain (count n : Z) : Z :=\n  %s.\n"
            "Definition gen_rc_release (count n : Z) : Z * bool :=\n  %s.\n"
            % (sr.close(sr.select("self.count")), sl.close("(%s, %s)" % (sl.select("self.count"), cb.guard()))))


def option_cases(what, attr, coqname, build):
    """a kernel over an attribute that is an int or None: `<attr> is not None` is decided per case, and in the None case
    the attribute must not be read (python would raise; the source guards it by short-circuit)"""
    some = build({attr: coqname, attr + " is not None": "true", attr + " is None": "false"})
    none = build({attr + " is not None": "false", attr + " is None": "true"})
    return "match %s with Some %s => %s | None => %s end" % (coqname, coqname, some, none)


def kernel_slice(core):
    cls = find_class(core, "slice")
    upd = find_func(cls, "update")
    chk = find_func(cls, "_check_end")
    base = {"self.state": "state", "self.star": "start", "self.step": "step"}
    out = {}

    def run_update(extra):
        sx = Straight("slice.update", dict(base, **extra), helpers={"_check_end": chk}, record_loops=True, calls=("self._emit",))
        sx.run(body_src(upd))
        emit = sx.the("call", "self._emit", "self._emit(...)")
        check = sx.the("helper", "self._check_end", "call of self._check_end()")
        # an early return before anything happened: the slice is finished
        early = [e for e in sx.events if e.kind == "return" and sx.events.index(e) < sx.events.index(check)]
        if len(early) > 1 or any(e.env.get("self.state") != "state" for e in early):
            raise KernelError("slice.update: unexpected early return")
        skip = set(o for e in early for _, o in e.pc)
        finished = early[0].guard() if early else "false"
        # the counter at the time of the emission = at the time of _check_end = at the end of every path that is not
        # the early return (what it is, one more than before, is the bridge lemma bridge_slice_next)
        nxt = emit.env.get("self.state")
        if nxt is None or check.env.get("self.state") != nxt:
            raise KernelError("slice.update: the counter differs between _check_end and the emission")
        for e in sx.events:
            if e.kind in ("end", "return") and e not in early and e.env.get("self.state") != nxt:
                raise KernelError("slice.update: the counter is not advanced the same way on every path")
        if out.setdefault("next", sx.close(nxt)) != sx.close(nxt):
            raise KernelError("slice.update: the counter depends on whether self.end is None")
        gate = sx.close(emit.guard(skip))
        if out.setdefault("pass", gate) != gate:
            raise KernelError("slice.update: the gate depends on whether self.end is None")
        return sx.close(finished)

    def run_check(extra):
        sx = Straight("slice._check_end", dict(base, **extra), record_loops=True)
        sx.run(body_src(chk))
        if not [e for e in sx.events if e.kind == "for"]:
            return "false"                       # no path detaches the node
        loop = sx.the("for", "self.upstreams", "loop over self.upstreams")
        if [ast.unparse(b) for b in loop.node.body] != ["%s._remove_downstream(self)" % ast.unparse(loop.node.target)]:
            raise KernelError("slice._check_end: the loop does not detach the node")
        if sx.select("self.state") != "state":
            raise KernelError("slice._check_end changes the state")
        return sx.close(loop.guard())

    finished = option_cases("slice.update", "self.end", "stop", run_update)
    done = option_cases("slice._check_end", "self.end", "stop", run_check)
    return ("(* streamz/core.py slice.update / _check_end *)\n"
            "Definition gen_slice_pass (state start step : Z) : bool :=\n  %s.\n"
            "Definition gen_slice_next (state : Z) : Z :=\n  %s.\n"
            "Definition gen_slice_done (state : Z) (stop : option Z) : bool :=\n  %s.\n"
            "Definition gen_slice_finished (state : Z) (stop : option Z) : bool :=\n  %s.\n" % (out["pass"], out["next"], done, finished))


def kernel_kafka(sources):
    cls = find_class(sources, "FromKafkaBatched")
    fn = find_func(cls, "poll_kafka")
    # the `for partition in range(self.npartitions)` loop whose body computes the batch
    loop = None
    for n in ast.walk(fn):
        if isinstance(n, ast.For) and isinstance(n.target, ast.Name) and "get_watermark_offsets" in ast.unparse(n) \
                and ast.unparse(n.iter) == "range(self.npartitions)":
            loop = n
    if loop is None:
        raise KernelError("poll_kafka: partition loop not found")
    part = loop.target.id
    # low, high = self.consumer.get_watermark_offsets(..) inside a try whose handlers skip the partition
    body, marks = [], None
    for s in loop.body:
        if isinstance(s, ast.Try) and "get_watermark_offsets" in ast.unparse(s):
            ok = len(s.body) == 1 and isinstance(s.body[0], ast.Assign) and len(s.body[0].targets) == 1 \
                and isinstance(s.body[0].targets[0], ast.Tuple) and len(s.body[0].targets[0].elts) == 2 \
                and all(isinstance(t, ast.Name) for t in s.body[0].targets[0].elts) and not s.orelse and not s.finalbody \
                and all(len(h.body) == 1 and isinstance(h.body[0], ast.Continue) for h in s.handlers)
            if not ok or marks is not None:
                raise KernelError("poll_kafka: shape of the watermark query")
            marks = [t.id for t in s.body[0].targets[0].elts]
            continue
        body.append(s)
    if marks is None:
        raise KernelError("poll_kafka: watermark query not found")
    pos = "self.positions[%s]" % part
    reset = "self.consumer_params['auto.offset.reset']"
    env = {pos: "pos", marks[0]: "low", marks[1]: "high", "self.max_batch_size": "maxb",
           # reset_latest: the key is present and holds 'latest'
           "'auto.offset.reset' in self.consumer_params.keys()": "true", "'auto.offset.reset' in self.consumer_params": "true",
           reset + " == 'latest'": "reset_latest", reset + " != 'latest'": "(negb reset_latest)"}
    sx = Straight("poll_kafka", env, calls=("out.append",))
    sx.run(body)
    app = sx.the("call", "out.append", "out.append(..)")
    a = app.node.args
    if len(a) != 1 or not isinstance(a[0], ast.Tuple) or len(a[0].elts) != 6 or ast.unparse(a[0].elts[2]) != part:
        raise KernelError("poll_kafka: out.append((params, topic, partition, keys, lo, hi))")
    tr = Tr(app.env)
    batch = "(if %s then Some (%s, %s) else None)" % (app.guard(), tr.expr(a[0].elts[4]), tr.expr(a[0].elts[5]))
    if app.guard() == "true":
        batch = "Some (%s, %s)" % (tr.expr(a[0].elts[4]), tr.expr(a[0].elts[5]))
    # the commit offset
    commit = find_func(fn, "commit")
    unpack = [s for s in body_src(commit) if isinstance(s, ast.Assign) and isinstance(s.targets[0], ast.Tuple)
              and ast.unparse(s.value) == "%s[1:]" % commit.args.args[0].arg]
    if len(unpack) != 1 or len(unpack[0].targets[0].elts) != 5 or not isinstance(unpack[0].targets[0].elts[4], ast.Name):
        raise KernelError("poll_kafka.commit: `topic, part_no, _, _, offset = _part[1:]`")
    sc = Straight("poll_kafka.commit", {unpack[0].targets[0].elts[4].id: "hi"}, calls=("self.consumer.commit",))
    sc.run([s for s in body_src(commit) if s is not unpack[0]])
    tp = [e for e in sc.events if e.kind == "call" and e.func.endswith("TopicPartition")]
    if len(tp) != 1 or len(tp[0].node.args) != 3:
        raise KernelError("poll_kafka.commit: TopicPartition(topic, part, offset)")
    return ("(* streamz/sources.py FromKafkaBatched.poll_kafka: per-partition body and commit offset *)\n"
            "Definition gen_kb_clamp (pos low high maxb : Z) (reset_latest : bool) : option (Z * Z) * Z :=\n  %s.\n"
            "Definition gen_kb_commit_offset (hi : Z) : Z :=\n  %s.\n"
            % (sx.close("(%s, %s)" % (batch, sx.select(pos))), sc.close(tp[0].arg(2))))


HEADER = ["(* GENERATED by harness/gen_kernels.py from the source under test on every run - do not edit *)",
          "From Coq Require Import ZArith Bool.", "Open Scope Z_scope.", ""]
KERNELS = [("KRateLimit", kernel_rate_limit, "core"), ("KRefCounter", kernel_refcounter, "core"),
           ("KSlice", kernel_slice, "core"), ("KKafka", kernel_kafka, "sources")]


def regenerate():
    """One file per kernel under coq/theories/Gen/.  A kernel that cannot be translated any more is replaced by a
    file that does not compile, so that exactly the properties whose cone contains its bridge report it.
    Returns {kernel: error text} for the failures."""
    gen_dir = os.path.join(VERIF, "coq", "theories", "Gen")
    os.makedirs(gen_dir, exist_ok=True)
    errors = {}
    trees = {}
    for name, fn, which in KERNELS:
        try:
            if which not in trees:
                trees[which] = ast.parse(open(os.path.join(REPO, "streamz", which + ".py")).read())
            text = "\n".join(HEADER + [fn(trees[which])]) + "\n"
        except (KernelError, SyntaxError, OSError) as e:
            text = "(* kernel no longer translatable: %s *)\nDefinition kernel_not_translatable : False := I.\n" % str(e).replace("*)", "* )")
            errors[name] = str(e)
        out = os.path.join(gen_dir, name + ".v")
        old = open(out).read() if os.path.exists(out) else None
        if old != text:
            with open(out, "w") as f:
                f.write(text)
    # whole `update` methods of the synchronous node classes (harness/gen_nodes.py)
    import gen_nodes
    try:
        if "core" not in trees:
            trees["core"] = ast.parse(open(os.path.join(REPO, "streamz", "core.py")).read())
        node_files = gen_nodes.generate_all(trees["core"])
    except (SyntaxError, OSError) as e:
        node_files = {"KN_" + c: (None, str(e)) for c in gen_nodes.ORDER}
    # Stream._emit / _retain_refs / _release_refs in the world-level monad (harness/gen_emit.py)
    import gen_emit
    try:
        node_files.update(gen_emit.generate_all(trees["core"]))
    except (SyntaxError, OSError, KeyError) as e:
        node_files.update({stem: (None, str(e)) for stem in gen_emit.ORDER})
    # the reduction classes of streamz/dataframe/aggregations.py (harness/gen_aggs.py)
    import gen_aggs
    try:
        aggs = ast.parse(open(os.path.join(REPO, "streamz", "dataframe", "aggregations.py")).read())
        node_files.update(gen_aggs.generate_all(aggs))
    except (SyntaxError, OSError) as e:
        node_files.update({stem: (None, str(e)) for stem in gen_aggs.ORDER})
    for name, (text, err) in node_files.items():
        if err is not None:
            text = "(* kernel no longer translatable: %s *)\nDefinition kernel_not_translatable : False := I.\n" % err.replace("*)", "* )").replace("(*", "( *")
            errors[name] = err
        out = os.path.join(gen_dir, name + ".v")
        old = open(out).read() if os.path.exists(out) else None
        if old != text:
            with open(out, "w") as f:
                f.write(text)
    stale = os.path.join(gen_dir, "Kernels.v")
    if os.path.exists(stale):
        os.remove(stale)
    return errors


if __name__ == "__main__":
    e = regenerate()
    import gen_nodes
    import gen_emit
    import gen_aggs
    for name in [k[0] for k in KERNELS] + ["KN_" + c for c in gen_nodes.ORDER] + gen_emit.ORDER + gen_aggs.ORDER:
        if len(sys.argv) > 1 and name not in sys.argv[1:]:
            continue
        print(open(os.path.join(VERIF, "coq", "theories", "Gen", name + ".v")).read())
    if e:
        print("ERROR:", e)
        sys.exit(1)
