"""Fail-closed translator: regenerates coq/theories/Gen/Kernels.v from /repo's CURRENT source on every run.

Four places where a property hinges on a few lines of integer arithmetic are translated statement by
statement from the Python AST into Gallina over Z.  Base/KernelBridge.v (hand written, in the cone of the
properties concerned) proves `generated kernel = kernel used by the hand model`, so an edit such as `>` -> `>=`
or `offset + 1` -> `offset` breaks a PROOF, not merely a test.  Anything the translator does not understand
aborts with KernelError ("kernel no longer translatable"), which the checks report as a broken obligation.

Accepted expression language: names, self.<attr>, self.<attr>[<name>], int literals, + - * % //, unary -, comparisons
(< <= > >= == != , `is None` / `is not None` on option-typed attributes), and/or/not, max/min, conditional
expressions.  Statements: straight-line assignments and `if` without loops.
"""
import ast
import os
import sys

REPO = os.environ.get("VERIF_REPO", "/repo")
VERIF = os.path.dirname(os.path.dirname(os.path.abspath(__file__)))
OUT = os.path.join(VERIF, "coq", "theories", "Gen", "Kernels.v")


class KernelError(Exception):
    pass


def find_class(tree, name):
    for n in ast.walk(tree):
        if isinstance(n, ast.ClassDef) and n.name == name:
            return n
    raise KernelError("class %s not found" % name)


def find_func(node, name):
    for n in ast.walk(node):
        if isinstance(n, (ast.FunctionDef, ast.AsyncFunctionDef)) and n.name == name:
            return n
    raise KernelError("function %s not found" % name)


class Tr:
    """expression translator with a renaming environment"""

    def __init__(self, env):
        self.env = env          # python source text of a name/attribute -> Coq term

    def key(self, e):
        return ast.unparse(e)

    def expr(self, e):
        k = self.key(e)
        if k in self.env:
            return self.env[k]
        if isinstance(e, ast.Constant) and isinstance(e.value, int) and not isinstance(e.value, bool):
            return "(%d)" % e.value
        if isinstance(e, ast.UnaryOp) and isinstance(e.op, ast.USub):
            return "(- %s)" % self.expr(e.operand)
        if isinstance(e, ast.BinOp):
            ops = {ast.Add: "+", ast.Sub: "-", ast.Mult: "*", ast.Mod: "mod", ast.FloorDiv: "/"}
            if type(e.op) not in ops:
                raise KernelError("operator %s" % ast.dump(e.op))
            return "(%s %s %s)" % (self.expr(e.left), ops[type(e.op)], self.expr(e.right))
        if isinstance(e, ast.Call) and isinstance(e.func, ast.Name) and e.func.id in ("max", "min") and len(e.args) == 2 and not e.keywords:
            return "(Z.%s %s %s)" % (e.func.id, self.expr(e.args[0]), self.expr(e.args[1]))
        if isinstance(e, ast.IfExp):
            return "(if %s then %s else %s)" % (self.bexpr(e.test), self.expr(e.body), self.expr(e.orelse))
        raise KernelError("expression not translatable: %s" % k)

    def bexpr(self, e):
        k = self.key(e)
        if k in self.env:
            return self.env[k]
        if isinstance(e, ast.BoolOp):
            op = "&&" if isinstance(e.op, ast.And) else "||"
            return "(" + (" %s " % op).join(self.bexpr(v) for v in e.values) + ")"
        if isinstance(e, ast.UnaryOp) and isinstance(e.op, ast.Not):
            return "(negb %s)" % self.bexpr(e.operand)
        if isinstance(e, ast.Compare) and len(e.ops) == 1:
            a, b = e.left, e.comparators[0]
            op = e.ops[0]
            table = {ast.Lt: "(%s <? %s)", ast.LtE: "(%s <=? %s)", ast.Gt: "(%s >? %s)", ast.GtE: "(%s >=? %s)",
                     ast.Eq: "(%s =? %s)", ast.NotEq: "(negb (%s =? %s))"}
            if type(op) in table:
                return table[type(op)] % (self.expr(a), self.expr(b))
            raise KernelError("comparison %s" % k)
        raise KernelError("condition not translatable: %s" % k)


def body_src(fn):
    return [s for s in fn.body if not (isinstance(s, ast.Expr) and isinstance(getattr(s, "value", None), ast.Constant))]


def kernel_rate_limit(core):
    """rate_limit.update: now = time(); old_next = self.next; self.next = max(now, self.next) + self.interval;
       if now < old_next: sleep(old_next - now)"""
    fn = find_func(find_class(core, "rate_limit"), "update")
    assigns = {}
    iff = None
    for s in ast.walk(fn):
        if isinstance(s, ast.Assign) and len(s.targets) == 1:
            assigns[ast.unparse(s.targets[0])] = s.value
        if isinstance(s, ast.If) and iff is None:
            iff = s
    for need in ("now", "old_next", "self.next"):
        if need not in assigns:
            raise KernelError("rate_limit.update: assignment to %s not found" % need)
    if ast.unparse(assigns["now"]) != "time()":
        raise KernelError("rate_limit.update: `now` is not time()")
    if ast.unparse(assigns["old_next"]) != "self.next":
        raise KernelError("rate_limit.update: `old_next` is not self.next")
    tr = Tr({"now": "now", "self.next": "next", "self.interval": "interval", "old_next": "next"})
    new_next = tr.expr(assigns["self.next"])
    if iff is None:
        raise KernelError("rate_limit.update: no `if` guarding the sleep")
    cond = tr.bexpr(iff.test)
    sleep = None
    for s in ast.walk(iff):
        if isinstance(s, ast.Call) and ast.unparse(s.func) == "gen.sleep" and len(s.args) == 1:
            sleep = tr.expr(s.args[0])
    if sleep is None:
        raise KernelError("rate_limit.update: no gen.sleep(...) under the guard")
    # order of statements: the emission must come after the (conditional) sleep
    return ("(* streamz/core.py rate_limit.update *)\n"
            "Definition gen_rl_next (now next interval : Z) : Z := %s.\n"
            "Definition gen_rl_must_sleep (now next : Z) : bool := %s.\n"
            "Definition gen_rl_sleep_for (now next : Z) : Z := %s.\n" % (new_next, cond, sleep))


def kernel_refcounter(core):
    cls = find_class(core, "RefCounter")
    ret = find_func(cls, "retain")
    rel = find_func(cls, "release")
    rb = body_src(ret)
    if len(rb) != 1 or not isinstance(rb[0], ast.AugAssign) or ast.unparse(rb[0].target) != "self.count":
        raise KernelError("RefCounter.retain is not a single `self.count op= n`")
    tr = Tr({"self.count": "count", "n": "n"})
    op = {ast.Add: "+", ast.Sub: "-"}.get(type(rb[0].op))
    if op is None:
        raise KernelError("RefCounter.retain operator")
    retain = "(count %s %s)" % (op, tr.expr(rb[0].value))
    lb = body_src(rel)
    if len(lb) != 2 or not isinstance(lb[0], ast.AugAssign) or not isinstance(lb[1], ast.If):
        raise KernelError("RefCounter.release is not `self.count op= n; if ...: schedule cb`")
    op2 = {ast.Add: "+", ast.Sub: "-"}.get(type(lb[0].op))
    newc = "(count %s %s)" % (op2, tr.expr(lb[0].value))
    # `self.count <= 0 and self.cb` (possibly written as nested ifs without else): the callback is present in our model
    tr2 = Tr({"self.count": "c", "self.cb": "true"})
    tests = []
    node = lb[1]
    while isinstance(node, ast.If):
        if node.orelse:
            raise KernelError("RefCounter.release: `else` branch in the scheduling condition")
        tests.append(tr2.bexpr(node.test))
        inner = body_src(node)
        if len(inner) != 1:
            raise KernelError("RefCounter.release: more than one statement under the scheduling condition")
        node = inner[0]
    fires = tests[0] if len(tests) == 1 else "(" + " && ".join(tests) + ")"
    calls = [ast.unparse(c.func) for c in ast.walk(lb[1]) if isinstance(c, ast.Call)]
    if "self.loop.add_callback" not in calls:
        raise KernelError("RefCounter.release does not schedule the callback with loop.add_callback")
    return ("(* streamz/core.py RefCounter.retain / release *)\n"
            "Definition gen_rc_retain (count n : Z) : Z := %s.\n"
            "Definition gen_rc_release (count n : Z) : Z * bool := let c := %s in (c, %s).\n" % (retain, newc, fires))


def kernel_slice(core):
    cls = find_class(core, "slice")
    upd = find_func(cls, "update")
    chk = find_func(cls, "_check_end")
    iff = [s for s in body_src(upd) if isinstance(s, ast.If)]
    if not iff:
        raise KernelError("slice.update: no gate")
    tr = Tr({"self.state": "state", "self.star": "start", "self.step": "step", "self.end": "stop"})
    # the gate is either the test of the `if` guarding the emission or a local bound to it beforehand
    guards = [s for s in iff if "self._emit" in ast.unparse(s)]
    if len(guards) != 1:
        raise KernelError("slice.update: expected exactly one `if` guarding the emission")
    # an `if` before it may only be the early return of a finished slice
    early = [s for s in iff if s is not guards[0]]
    finished = "false"
    if early:
        if len(early) != 1 or body_src(upd).index(early[0]) != 0 or not (len(early[0].body) == 1 and isinstance(early[0].body[0], ast.Return)):
            raise KernelError("slice.update: unexpected `if` besides the gate")
        t0 = early[0].test
        if not (isinstance(t0, ast.BoolOp) and isinstance(t0.op, ast.And) and len(t0.values) == 2
                and ast.unparse(t0.values[0]) == "self.end is not None"):
            raise KernelError("slice.update: early return condition is not `self.end is not None and ...`")
        finished = tr.bexpr(t0.values[1])
    iff = guards
    gate_stmt, gate_expr = iff[0], iff[0].test
    if isinstance(gate_expr, ast.Name):
        binds = [s for s in body_src(upd) if isinstance(s, ast.Assign) and len(s.targets) == 1
                 and ast.unparse(s.targets[0]) == gate_expr.id]
        if len(binds) != 1:
            raise KernelError("slice.update: gate variable %s is not bound exactly once" % gate_expr.id)
        gate_stmt, gate_expr = binds[0], binds[0].value
    if "_emit" not in ast.unparse(iff[0]):
        raise KernelError("slice.update: the gate does not guard the emission")
    gate = tr.bexpr(gate_expr)
    incr = [s for s in body_src(upd) if isinstance(s, ast.AugAssign) and ast.unparse(s.target) == "self.state"]
    if len(incr) != 1 or not isinstance(incr[0].op, ast.Add) or ast.unparse(incr[0].value) != "1":
        raise KernelError("slice.update: state is not incremented by one")
    # the gate must be evaluated on the position BEFORE the increment
    idx_gate = body_src(upd).index(gate_stmt)
    idx_inc = body_src(upd).index(incr[0])
    if idx_inc < idx_gate:
        raise KernelError("slice.update: state incremented before the gate is evaluated")
    cb = [s for s in body_src(chk) if isinstance(s, ast.If)]
    if len(cb) != 1:
        raise KernelError("slice._check_end: shape")
    t = cb[0].test
    # `self.end is not None and self.state >= self.end`
    if not (isinstance(t, ast.BoolOp) and isinstance(t.op, ast.And) and len(t.values) == 2
            and ast.unparse(t.values[0]) == "self.end is not None"):
        raise KernelError("slice._check_end: expected `self.end is not None and ...`, got %s" % ast.unparse(t))
    done = tr.bexpr(t.values[1])
    return ("(* streamz/core.py slice.update / _check_end *)\n"
            "Definition gen_slice_pass (state start step : Z) : bool := %s.\n"
            "Definition gen_slice_done (state : Z) (stop : option Z) : bool :=\n"
            "  match stop with Some stop => %s | None => false end.\n"
            "Definition gen_slice_finished (state : Z) (stop : option Z) : bool :=\n"
            "  match stop with Some stop => %s | None => false end.\n" % (gate, done, finished))


def kernel_kafka(sources):
    cls = find_class(sources, "FromKafkaBatched")
    fn = find_func(cls, "poll_kafka")
    # the `for partition in range(self.npartitions)` loop whose body computes the batch
    loop = None
    for n in ast.walk(fn):
        if isinstance(n, ast.For) and ast.unparse(n.target) == "partition" and "get_watermark_offsets" in ast.unparse(n):
            loop = n
    if loop is None:
        raise KernelError("poll_kafka: partition loop not found")
    env = {"self.positions[partition]": "pos", "low": "low", "high": "high", "self.max_batch_size": "maxb",
           "current_position": "pos", "lowest": "lowest"}
    tr = Tr(env)
    stmts = [s for s in loop.body if not isinstance(s, ast.Try)]
    # 1. reset handling
    reset_if = None
    for s in stmts:
        if isinstance(s, ast.If) and "auto.offset.reset" in ast.unparse(s.test):
            reset_if = s
    if reset_if is None:
        raise KernelError("poll_kafka: auto.offset.reset handling not found")
    inner = [s for s in ast.walk(reset_if) if isinstance(s, ast.If) and s is not reset_if]
    if len(inner) != 1:
        raise KernelError("poll_kafka: reset handling shape")
    it = inner[0].test
    if not (isinstance(it, ast.BoolOp) and isinstance(it.op, ast.And) and len(it.values) == 2
            and "== 'latest'" in ast.unparse(it.values[0])):
        raise KernelError("poll_kafka: reset condition shape: %s" % ast.unparse(it))
    sentinel = tr.bexpr(it.values[1])
    asg = [s for s in inner[0].body if isinstance(s, ast.Assign)]
    if len(asg) != 1 or ast.unparse(asg[0].targets[0]) != "self.positions[partition]":
        raise KernelError("poll_kafka: reset assignment shape")
    reset_val = tr.expr(asg[0].value)
    # 2. the clamp
    seq = {}
    ifs = []
    for s in stmts:
        if isinstance(s, ast.Assign) and len(s.targets) == 1:
            seq[ast.unparse(s.targets[0])] = s.value
        if isinstance(s, ast.If) and s is not reset_if:
            ifs.append(s)
    if "current_position" not in seq or ast.unparse(seq["current_position"]) != "self.positions[partition]":
        raise KernelError("poll_kafka: current_position")
    if "lowest" not in seq:
        raise KernelError("poll_kafka: lowest")
    tr1 = Tr({"current_position": "pos1", "low": "low"})
    lowest = tr1.expr(seq["lowest"])
    if len(ifs) != 2:
        raise KernelError("poll_kafka: expected the clamp `if` and the emit `if`, found %d" % len(ifs))
    tr2 = Tr({"high": "high", "lowest": "lowest", "self.max_batch_size": "maxb"})
    clamp_test = tr2.bexpr(ifs[0].test)
    ca = [s for s in ifs[0].body if isinstance(s, ast.Assign)]
    if len(ca) != 1 or ast.unparse(ca[0].targets[0]) != "high":
        raise KernelError("poll_kafka: clamp assignment")
    clamp_val = tr2.expr(ca[0].value)
    tr3 = Tr({"high": "high1", "lowest": "lowest"})
    emit_test = tr3.bexpr(ifs[1].test)
    app = [c for c in ast.walk(ifs[1]) if isinstance(c, ast.Call) and ast.unparse(c.func) == "out.append"]
    if len(app) != 1 or not isinstance(app[0].args[0], ast.Tuple) or len(app[0].args[0].elts) != 6:
        raise KernelError("poll_kafka: out.append((params, topic, partition, keys, lo, hi))")
    lo = tr3.expr(app[0].args[0].elts[4])
    hi = tr3.expr(app[0].args[0].elts[5])
    pa = [s for s in ifs[1].body if isinstance(s, ast.Assign) and ast.unparse(s.targets[0]) == "self.positions[partition]"]
    if len(pa) != 1:
        raise KernelError("poll_kafka: position update")
    newpos = tr3.expr(pa[0].value)
    # 3. the commit offset
    commit = find_func(fn, "commit")
    tp = [c for c in ast.walk(commit) if isinstance(c, ast.Call) and ast.unparse(c.func).endswith("TopicPartition")]
    if len(tp) != 1 or len(tp[0].args) != 3:
        raise KernelError("poll_kafka.commit: TopicPartition(topic, part, offset)")
    trc = Tr({"offset": "hi"})
    commit_off = trc.expr(tp[0].args[2])
    return ("(* streamz/sources.py FromKafkaBatched.poll_kafka: per-partition body and commit offset *)\n"
            "Definition gen_kb_clamp (pos low high maxb : Z) (reset_latest : bool) : option (Z * Z) * Z :=\n"
            "  let pos1 := if reset_latest && %s then %s else pos in\n"
            "  let lowest := %s in\n"
            "  let high1 := if %s then %s else high in\n"
            "  if %s then (Some (%s, %s), %s) else (None, pos1).\n"
            "Definition gen_kb_commit_offset (hi : Z) : Z := %s.\n"
            % (sentinel, reset_val, lowest, clamp_test, clamp_val, emit_test, lo, hi, newpos, commit_off))


HEADER = ["(* GENERATED by harness/gen_kernels.py from the source under test on every run - do not edit *)",
          "From Coq Require Import ZArith Bool.", "Open Scope Z_scope.", ""]
KERNELS = [("KRateLimit", kernel_rate_limit, "core"), ("KRefCounter", kernel_refcounter, "core"),
           ("KSlice", kernel_slice, "core"), ("KKafka", kernel_kafka, "sources")]


def regenerate():
    """One file per kernel under coq/theories/Gen/.  A kernel that cannot be translated any more is replaced by a
    file that does not compile, so that exactly the properties whose cone contains its bridge report it.
    Returns {kernel: error text} for the failures."""
    gen_dir = os.path.join(VERIF, "coq", "theories", "Gen")
    os.makedirs(gen_dir, exist_ok=True)
    errors = {}
    trees = {}
    for name, fn, which in KERNELS:
        try:
            if which not in trees:
                trees[which] = ast.parse(open(os.path.join(REPO, "streamz", which + ".py")).read())
            text = "\n".join(HEADER + [fn(trees[which])]) + "\n"
        except (KernelError, SyntaxError, OSError) as e:
            text = "(* kernel no longer translatable: %s *)\nDefinition kernel_not_translatable : False := I.\n" % str(e).replace("*)", "* )")
            errors[name] = str(e)
        out = os.path.join(gen_dir, name + ".v")
        old = open(out).read() if os.path.exists(out) else None
        if old != text:
            with open(out, "w") as f:
                f.write(text)
    # whole `update` methods of the synchronous node classes (harness/gen_nodes.py)
    import gen_nodes
    try:
        if "core" not in trees:
            trees["core"] = ast.parse(open(os.path.join(REPO, "streamz", "core.py")).read())
        node_files = gen_nodes.generate_all(trees["core"])
    except (SyntaxError, OSError) as e:
        node_files = {"KN_" + c: (None, str(e)) for c in gen_nodes.ORDER}
    # Stream._emit / _retain_refs / _release_refs in the world-level monad (harness/gen_emit.py)
    import gen_emit
    try:
        node_files.update(gen_emit.generate_all(trees["core"]))
    except (SyntaxError, OSError, KeyError) as e:
        node_files.update({stem: (None, str(e)) for stem in gen_emit.ORDER})
    for name, (text, err) in node_files.items():
        if err is not None:
            text = "(* kernel no longer translatable: %s *)\nDefinition kernel_not_translatable : False := I.\n" % err.replace("*)", "* )").replace("(*", "( *")
            errors[name] = err
        out = os.path.join(gen_dir, name + ".v")
        old = open(out).read() if os.path.exists(out) else None
        if old != text:
            with open(out, "w") as f:
                f.write(text)
    stale = os.path.join(gen_dir, "Kernels.v")
    if os.path.exists(stale):
        os.remove(stale)
    return errors


if __name__ == "__main__":
    e = regenerate()
    import gen_nodes
    import gen_emit
    for name in [k[0] for k in KERNELS] + ["KN_" + c for c in gen_nodes.ORDER] + gen_emit.ORDER:
        if len(sys.argv) > 1 and name not in sys.argv[1:]:
            continue
        print(open(os.path.join(VERIF, "coq", "theories", "Gen", name + ".v")).read())
    if e:
        print("ERROR:", e)
        sys.exit(1)
