"""C19 oracle: the property's clauses evaluated directly on what the real code showed (no model).

For each request of a session we know the snapshot before (loop code, asynchronous of every live node), the request,
and the observation after.  Judging stops at the first finding or at the first raise that left nodes mutated
(everything after that is a consequence); all prefixes are enumerated as sessions of their own anyway."""
import c19_impl as impl


def components(node_ups):
    n = len(node_ups)
    parent = list(range(n))

    def find(x):
        while parent[x] != x:
            parent[x] = parent[parent[x]]
            x = parent[x]
        return x
    for j, ups in enumerate(node_ups):
        for u in ups:
            parent[find(u)] = find(j)
    comp = {}
    for i in range(n):
        comp.setdefault(find(i), []).append(i)
    return comp, find


def kclass(kind):
    k = impl.KINDS[kind]
    if k["arity"] == 0:
        return "source" if k["ensure"] else "root"
    if k["arity"] == 1:
        return "ensure_io_loop-node" if k["ensure"] else "plain-node"
    return "join"


def judge(steps, obs, client=False):
    """-> (findings [(signature, message, step_index)], info dict)"""
    findings = []
    info = {"partial_mutation_on_raise": 0, "loopless_upstream_after_join": 0, "child_mode_none_of_blocking_parent": 0}
    node_ups = []
    pre = []
    for k, (st, ob) in enumerate(zip(steps, obs)):
        kind = st["kind"]
        kc = kclass(kind)
        ens = impl.KINDS[kind]["ensure"]
        ups = st.get("ups", [])
        xa, xl = st.get("asynchronous"), st.get("loop")
        post = ob["snap"]
        comp, find = components(node_ups)
        members = sorted({m for u in ups for m in comp[find(u)]})
        pipe_loops = {pre[m][0] for m in members if pre[m][0] is not None}
        pipe_modes = {pre[m][1] for m in members if pre[m][1] is not None}
        up_loops = [pre[u][0] for u in ups if pre[u][0] is not None]
        up_true = any(pre[u][1] is True for u in ups)
        f = []
        if ob["raised"] and not ob["exc"].startswith("ValueError"):
            f.append(("C19/unexpected-exception/%s" % kc, "constructor of %s raised %s" % (kind, ob["exc"])))
        # explicit request conflicting with the pipeline must raise
        if xl is not None and any(l != xl for l in pipe_loops) and not ob["raised"]:
            f.append(("C19/conflict-not-raised/loop/%s" % kc,
                      "%s(loop=%s) attached to a pipeline on loop %s did not raise" % (kind, xl, sorted(pipe_loops))))
        if xa is not None and any(m != xa for m in pipe_modes) and not ob["raised"]:
            f.append(("C19/conflict-not-raised/mode/%s" % kc,
                      "%s(asynchronous=%s) attached to a pipeline with asynchronous=%s did not raise" % (kind, xa, sorted(pipe_modes))))
        consistent_request = not (xl is not None and any(l != xl for l in pipe_loops)) and \
            not (xa is not None and any(m != xa for m in pipe_modes)) and len(pipe_loops) <= 1 and len(pipe_modes) <= 1
        # declared asynchronous -> caller's loop, stays asynchronous, no thread
        if xa is True and xl is None and not pipe_loops and consistent_request:
            if ob["raised"]:
                f.append(("C19/declared-async/raises/%s" % kc,
                          "%s(asynchronous=True) on a loop-less pipeline raised %s" % (kind, ob["exc"])))
            else:
                new = post[-1]
                if new[0] != "CUR" or new[1] is not True:
                    f.append(("C19/declared-async/not-on-current-loop/%s" % kc,
                              "%s(asynchronous=True) ended with loop=%s asynchronous=%s" % (kind, new[0], new[1])))
                if ob["thread_started"]:
                    f.append(("C19/declared-async/thread-started/%s" % kc,
                              "%s(asynchronous=True) started a background thread" % kind))
        # fallback: needs a loop, nothing declared, nothing inherited -> shared background loop, blocking
        if ens and xa is None and xl is None and not pipe_loops and True not in pipe_modes:
            if ob["raised"]:
                f.append(("C19/fallback/raises/%s" % kc, "%s() on a loop-less pipeline raised %s" % (kind, ob["exc"])))
            elif post[-1][0] != ("DC" if client else "BG") or post[-1][1] is not False:
                # (with a blocking dask default client the shared background loop IS the client's loop)
                f.append(("C19/fallback/not-background/%s" % kc,
                          "%s() with nothing inherited ended with loop=%s asynchronous=%s" % (kind, post[-1][0], post[-1][1])))
        if not ob["raised"]:
            new = post[-1]
            # inheritance (single upstream, nothing explicit): same loop, same async-vs-blocking mode as the parent
            if len(set(ups)) == 1 and xa is None and xl is None:
                u = ups[0]
                if pre[u][0] is not None and new[0] != pre[u][0]:
                    f.append(("C19/inherit/loop/%s" % kc, "%s() got loop %s, its upstream has %s" % (kind, new[0], pre[u][0])))
                if new[0] != post[u][0]:
                    f.append(("C19/inherit/loop-differs-after/%s" % kc,
                              "%s() has loop %s, its upstream ends with %s" % (kind, new[0], post[u][0])))
                if bool(new[1]) != bool(post[u][1]):
                    f.append(("C19/inherit/mode/%s" % kc,
                              "%s() has asynchronous=%s, its upstream %s" % (kind, new[1], post[u][1])))
                if post[u][1] is False and new[1] is None:
                    info["child_mode_none_of_blocking_parent"] += 1
            # one loop / one mode per connected pipeline
            ups_now = node_ups + [list(ups)]
            comp2, find2 = components(ups_now)
            mem2 = comp2[find2(len(ups_now) - 1)]
            loops2 = sorted({post[m][0] for m in mem2 if post[m][0] is not None})
            modes2 = sorted({post[m][1] for m in mem2 if post[m][1] is not None}, key=str)
            if len(loops2) > 1:
                f.append(("C19/split/loop/%s/%s" % (kc, "explicit" if xl is not None else "inherited"),
                          "after %s the connected pipeline has nodes on loops %s" % (kind, loops2)))
            if len(modes2) > 1:
                f.append(("C19/split/mode/%s/%s" % (kc, "explicit" if xa is not None else "inherited"),
                          "after %s the connected pipeline has asynchronous in %s" % (kind, modes2)))
            if any(post[m][0] is None for m in mem2) and loops2:
                info["loopless_upstream_after_join"] += 1
            # percolation: along every single-upstream edge of the whole graph the loop is shared (both unset or
            # the same) and so is the asynchronous-vs-blocking mode — also for nodes that existed before
            for j, ju in enumerate(ups_now):
                if len(set(ju)) == 1 and not f:
                    u = ju[0]
                    if post[j][0] != post[u][0]:
                        f.append(("C19/percolation/loop-not-shared-along-edge",
                                  "after %s: node %d has loop %s but its only upstream %d has %s" % (kind, j, post[j][0], u, post[u][0])))
                    elif bool(post[j][1]) != bool(post[u][1]):
                        f.append(("C19/percolation/mode-not-shared-along-edge",
                                  "after %s: node %d has asynchronous=%s but its only upstream %d has %s" % (kind, j, post[j][1], u, post[u][1])))
        if f:
            findings.extend((s, m, k) for s, m in f)
            break
        if ob["raised"]:
            if post != pre:
                info["partial_mutation_on_raise"] += 1
                break
        else:
            node_ups = ups_now
        pre = post
    return findings, info
