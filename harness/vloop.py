"""Stepped virtual-time event loop: drives the REAL streamz coroutines deterministically.

* `settle()`  runs the loop until nothing is ready (virtual time does not move);
* `advance(dt)` moves virtual time forward by dt, firing timers in due order, settling after each.

`select` never blocks.  Busy-waits (`while full: await asyncio.sleep(0)` in map_async) are detected by
counting consecutive zero-timeout selects: while settling we stop (the spin is an enabled-but-useless
internal step), while advancing we jump to the next timer.
Times are multiples of 1/TICKS_PER_S so float arithmetic is exact.
"""
import asyncio
import heapq

TICKS_PER_S = 16


class VirtualLoop(asyncio.SelectorEventLoop):
    def __init__(self):
        super().__init__()
        self._vt = 0.0
        self._spin = 0
        self.mode = 'settle'
        self.limit = None
        self.spun = False
        outer = self
        orig = self._selector.select

        def select(timeout=None):
            ev = orig(0)
            if ev:
                return ev
            if timeout == 0:
                outer._spin += 1
                if outer._spin > 50:
                    # only busy-wait callbacks are left
                    outer.spun = True
                    if outer.mode == 'advance' and outer._next_timer() is not None and \
                            (outer.limit is None or outer._next_timer() <= outer.limit):
                        outer._vt = max(outer._vt, outer._next_timer())
                        outer._spin = 0
                    else:
                        if outer.mode == 'advance' and outer.limit is not None:
                            outer._vt = max(outer._vt, outer.limit)
                        outer.stop()
                return []
            outer._spin = 0
            if outer.mode == 'settle' or timeout is None:
                if outer.mode == 'advance' and outer.limit is not None:
                    outer._vt = max(outer._vt, outer.limit)
                outer.stop()
                return []
            nxt = outer._vt + timeout
            if outer.limit is not None and nxt > outer.limit:
                outer._vt = outer.limit
                outer.stop()
                return []
            outer._vt = nxt
            return []
        self._selector.select = select

    def _next_timer(self):
        while self._scheduled and self._scheduled[0]._cancelled:
            h = heapq.heappop(self._scheduled)
            h._scheduled = False
            self._timer_cancelled_count -= 1
        return self._scheduled[0]._when if self._scheduled else None

    def time(self):
        return self._vt

    def settle(self):
        self.mode = 'settle'
        self.limit = None
        self._spin = 0
        self.run_forever()

    def advance(self, dt):
        self.mode = 'advance'
        self.limit = self._vt + dt
        self._spin = 0
        self.run_forever()
        self._vt = max(self._vt, self.limit)
        self.settle()

    def ticks(self):
        t = self._vt * TICKS_PER_S
        assert t == int(t), t
        return int(t)

    def pending_timers(self):
        out = []
        for h in self._scheduled:
            if not h._cancelled:
                t = h._when * TICKS_PER_S
                out.append(t)
        return sorted(out)


_installed = {}


def install(loop):
    """Make `loop` the current loop and route streamz/tornado clocks to virtual time."""
    import streamz.core
    import tornado.ioloop
    asyncio.set_event_loop(loop)
    if 'time' not in _installed:
        _installed['time'] = streamz.core.time
        _installed['iol'] = tornado.ioloop.IOLoop.time
    streamz.core.time = loop.time
    tornado.ioloop.IOLoop.time = lambda self: asyncio.get_event_loop().time() if False else loop.time()


def uninstall():
    import streamz.core
    import tornado.ioloop
    if 'time' in _installed:
        streamz.core.time = _installed['time']
        tornado.ioloop.IOLoop.time = _installed['iol']
    asyncio.set_event_loop(None)


def fresh():
    loop = VirtualLoop()
    install(loop)
    return loop


def dispose(loop):
    try:
        # cancel everything still pending so nothing leaks into the next case
        for t in asyncio.all_tasks(loop):
            t.cancel()
        loop.settle()
    except Exception:
        pass
    try:
        from tornado.ioloop import IOLoop
        io = IOLoop.current(instance=False)
        if io is not None:
            IOLoop.clear_current() if hasattr(IOLoop, "clear_current") else None
    except Exception:
        pass
    uninstall()
    try:
        loop.close()
    except Exception:
        pass
