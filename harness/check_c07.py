"""C07 — windowed aggregations equal pandas on exactly the rows inside the window."""
import json
import multiprocessing as mp
import os
import random
import re
import sys
import time

sys.path.insert(0, os.path.dirname(os.path.abspath(__file__)))
import common
import c07_cases as G

PROP = "C07"
FLAG_NAMES = ["as-found", "loc", "mean", "loc+mean", "var", "loc+var", "mean+var", "loc+mean+var"]
FLAG_SIG = {0: G.SIG_LOC, 1: G.SIG_MEAN, 2: G.SIG_VAR}     # bit -> finding whose repair the bit selects


def _eval(case):
    try:
        return G.evaluate(case)
    except Exception as e:
        return dict(got=None, exp=None, fail=(0, "harness"), sig="C07/harness-crash", err=repr(e)[:300])


def evaluate_all(cases):
    n = max(1, min(common.NCPU, 8))
    if len(cases) < 20:
        return [_eval(c) for c in cases]
    ctx = mp.get_context("fork")
    with ctx.Pool(n) as pool:
        return pool.map(_eval, cases, chunksize=50)


def parse_lists(out):
    """'= [[1; 2]; []; ...] : list (list nat)' -> list of lists"""
    m = re.search(r"=\s*(\[.*\])\s*:\s*list \(list nat\)", out, re.S)
    if not m:
        return None
    body = m.group(1).strip()[1:-1]
    res = []
    for part in re.findall(r"\[([^\[\]]*)\]", body):
        res.append([int(x) for x in re.findall(r"\d+", part)])
    return res


def correspondence(cases, results, shard=250):
    """Returns (per-flag-combination list of mismatching case indices, n compared, errors)."""
    d = common.scratch(PROP)
    idx = [i for i, (c, r) in enumerate(zip(cases, results)) if G.in_model(c) and r["got"] is not None]
    paths = []
    for s in range(0, len(idx), shard):
        chunk = idx[s:s + shard]
        p = os.path.join(d, "cases_%d.v" % (s // shard))
        with open(p, "w") as f:
            f.write(G.COQ_HEADER)
            for i in chunk:
                f.write(G.coq_case("c%d" % i, cases[i], results[i]["got"]))
            f.write("Definition cs := [%s].\n" % "; ".join("c%d" % i for i in chunk))
            f.write("Eval vm_compute in (map (fun fl => mismatches fl cs) all_flags).\n")
        paths.append((p, chunk))
    res = common.run_case_files([p for p, _ in paths])
    per_flag = [[] for _ in range(8)]
    errors = []
    for p, chunk in paths:
        rc, out = res[p]
        lists = parse_lists(out) if rc == 0 else None
        if lists is None or len(lists) != 8:
            errors.append((p, out[-1500:]))
            continue
        for fi, l in enumerate(lists):
            per_flag[fi].extend(chunk[j] for j in l)
    return per_flag, len(idx), errors


def magnitude_cases(tier):
    mags = []
    for agg in ("sum", "mean", "var", "var0", "std"):
        for (dtype, base, spread, rows, batch, w) in (("int", 2000000, 100003, 3500, 500, 2000), ("float", 2000000, 100003, 2400, 600, 1500),
                                                       ("int", 40000, 997, 900, 200, 500)):
            for win in ("n", "t"):
                for shape in (("series", "frame") if agg in ("var", "sum") else ("series",)):
                    mags.append(dict(kind="mag", win=win, w=w, agg=agg, dtype=dtype, base=base, spread=spread, rows=rows, batch=batch, shape=shape))
    if tier != "thorough":
        mags = [m for j, m in enumerate(mags) if m["agg"] in ("var", "std") or j % 2 == 0]
    return mags


def run_mags(out, mags):
    """magnitude family (oracle only, relative tolerance 1e-6): long windows over large int64 / float64 columns"""
    import warnings
    import c07_impl as I
    n = 0
    for m in mags:
        with warnings.catch_warnings():
            warnings.simplefilter("ignore")
            try:
                bad = I.run_magnitude(m)
            except Exception as e:      # noqa
                bad = (-1, "raised %r" % (e,), None)
        n += 1
        if bad:
            out.violation("C07/window/large-values/%s/%s" % (m["agg"], m["dtype"]),
                          "windowed %s over window(%s=%s) of a %s column with values around %d (%d rows in the window) differs from pandas at batch %d: %r vs %r"
                          % (m["agg"], m["win"], m["w"], m["dtype"], m["base"], m["w"], bad[0], bad[1], bad[2]), {"case": m})
            break
    return n


def run(prop, tier, seed, replay=None):
    out = common.Outcome(prop, tier, seed)
    proof = common.props_check(prop)
    rng = random.Random(seed * 1000003 + 7)
    if replay:
        cases = [json.load(open(replay))["replay"]["case"]]
        if cases[0].get("kind") == "mag":
            n = run_mags(out, cases)
            return out.finish(proof, {"evaluations": n, "distinct_nontrivial": n, "rule": "replay of one magnitude case", "samples": cases,
                                      "traces_validated_against_impl": 0, "disagreements_checked": len(out.violations)})
    else:
        cases = G.quick_cases()
        nrand = {"quick": 600, "thorough": 20000}[tier]
        cases += [G.random_case(rng, big=(tier == "thorough" or i % 3 == 0)) for i in range(nrand)]
    known = common.known_signatures(prop)
    t0 = time.time()
    results = evaluate_all(cases)
    t_impl = time.time() - t0

    # ---- oracle verdicts
    by_sig = {}
    for i, r in enumerate(results):
        if r["sig"]:
            by_sig.setdefault(r["sig"], []).append(i)
    for sig, lst in sorted(by_sig.items()):
        if sig in known:
            out.known_finding(sig, "%s (%d of %d cases this run)" % (known[sig]["what"], len(lst), len(cases)))
            continue
        i = min(lst, key=lambda j: (len(cases[j]["rows"]), len(cases[j]["sizes"])))
        small = G.shrink(cases[i], sig) if not replay else cases[i]
        r = _eval(small)
        out.violation(sig, "windowed %s%s over window(%s=%s) differs from pandas on the window rows at batch %s (%s); %d cases with this signature"
                      % (small["agg"], " by group" if small["group"] else "", "n" if small["kind"] == "n" else "value",
                         small["w"], r["fail"][0] if r["fail"] else "?", r["fail"][1] if r["fail"] else "?", len(lst)),
                      {"case": small, "observed": r.get("got"), "expected": r.get("exp"), "error": r.get("err")})

    nmag = 0
    if not replay:
        nmag = run_mags(out, magnitude_cases(tier))

    # ---- correspondence with the Coq model (all 8 as-found/repaired combinations)
    t0 = time.time()
    per_flag, ncomp, errors = correspondence(cases, results)
    t_coq = time.time() - t0
    for p, o_ in errors:
        out.violation("C07/correspondence-error", "coqc failed on generated cases: %s" % o_[-400:], {"file": p}, no_input=True)
    consistent = [fi for fi in range(8) if not per_flag[fi]]
    variant = None
    if not errors:
        if consistent:
            variant = consistent[0]
        elif not out.violations:
            best = min(range(8), key=lambda fi: len(per_flag[fi]))
            i = per_flag[best][0]
            out.violation("C07/correspondence/model-differs",
                          "Coq model (closest variant: %s) and implementation disagree on %d of %d cases; the oracle found nothing new on those traces"
                          % (FLAG_NAMES[best], len(per_flag[best]), ncomp),
                          {"case": cases[i], "observed": results[i]["got"], "correspondence": "SZ.DF.Window.agree",
                           "mismatching_cases": per_flag[best][:20]}, no_input=True)
    # a finding whose repaired variant matches must not be reported by the oracle, and vice versa
    if variant is not None:
        for bit, sig in FLAG_SIG.items():
            distinguishing = set(per_flag[variant ^ (1 << bit)])
            if (variant >> bit) & 1 and sig in by_sig and sig in known:
                pass  # oracle and model disagree about the finding: the oracle line above already reports it
            if not ((variant >> bit) & 1) and distinguishing and sig not in by_sig:
                i = sorted(distinguishing)[0]
                out.violation("C07/correspondence/as-found-without-oracle-violation",
                              "tree matches the as-found variant for %s but the oracle saw no violation" % sig,
                              {"case": cases[i]}, no_input=True)
    if not proof["ok"]:
        out.violation("C07/proof/%s" % proof["failing"], "proof obligation no longer checks: %s" % proof["failing"],
                      {"theorem_or_file": proof["failing"], "log": proof["log"][-3000:]}, no_input=True)

    nontriv = set()
    hist = {}
    for c, r in zip(cases, results):
        key = "%s/%s/%s" % (c["kind"], c["group"] or "plain", c["agg"])
        hist[key] = hist.get(key, 0) + 1
        if len(c["rows"]) >= 2 and (c["kind"] == "t" or len(c["rows"]) > c["w"]) and len([s for s in c["sizes"] if s]) >= 2:
            nontriv.add(json.dumps(c, sort_keys=True))
    nb = lambda pred: sum(1 for c in cases if pred(c))
    cov = {
        "evaluations": len(cases), "distinct_nontrivial": len(nontriv),
        "exhaustive": not replay,
        "rule": "exhaustive: every composition of fixed 5-row tables (6-row tables for four aggregation forms) into consecutive batches, "
                "each also with an empty batch inserted first / in the middle / last, x window n in {1,2,3,5} or value T in {1,2,3,4}ns "
                "(tables with duplicate stamps and rows exactly at newest-T and newest-T+1ns) x every aggregation "
                "(sum,count,size,mean,var ddof 0/1,std,value_counts; groupby by column and by streaming grouper); plus seeded random "
                "tables/batchings. non-trivial = at least two non-empty batches and rows actually leave the window (n-window smaller than "
                "the table, or a value window); distinct by JSON of the case",
        "traces_validated_against_impl": ncomp - (len(per_flag[variant]) if variant is not None else min(len(x) for x in per_flag)),
        "disagreements_checked": sum(len(v) for v in by_sig.values()),
        "model_variant_matched": FLAG_NAMES[variant] if variant is not None else None,
        "mismatches_per_variant": {FLAG_NAMES[i]: len(per_flag[i]) for i in range(8)},
        "oracle_violations_by_signature": {k: len(v) for k, v in by_sig.items()},
        "case_histogram": hist,
        "cases_with_empty_batch": nb(lambda c: 0 in c["sizes"]),
        "cases_batch_larger_than_window": nb(lambda c: c["kind"] == "n" and max(c["sizes"] or [0]) > c["w"]),
        "cases_with_nan": nb(lambda c: any(r[2] is None for r in c["rows"])),
        "samples": [cases[0], cases[len(cases) // 2], cases[-1]],
        "impl_seconds": round(t_impl, 2), "coq_seconds": round(t_coq, 2),
        "magnitude_cases(oracle only: int64/float64 columns around 2e6, 1500-2000 rows per window, rtol 1e-6)": nmag,
    }
    return out.finish(proof, cov)


if __name__ == "__main__":
    import argparse
    ap = argparse.ArgumentParser()
    ap.add_argument("--tier", default=common.tier_from_env())
    ap.add_argument("--replay")
    a = ap.parse_args()
    sys.exit(run(PROP, a.tier, common.seed_from_env(), a.replay))
