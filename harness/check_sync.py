"""Checks of the synchronous family: C01 (dataflow), C10 (metadata), C05 (balance, sync part), C16 (faults)."""
import json, os, random, sys, time
sys.path.insert(0, os.path.dirname(os.path.abspath(__file__)))
import common, syncfam, syncoracle, syncrun

KIND_FOCUS = None


FOCUS_KINDS = ["partition_unique", "sliding_window", "zip_latest", "combine_latest", "zip", "unique", "partition", "slice",
               "accumulate", "flatten", "pluck", "collect"]


def gen_cases(rng, n, tier, faults=None):
    g = syncfam.Gen(rng, max_nodes=12 if tier == "quick" else 24, max_events=14 if tier == "quick" else 40, faults=faults)
    cases = [g.case() for _ in range(n)]
    # focused small graphs: one state-carrying kind at a time, few nodes, many events over a small alphabet, nearly
    # every element with metadata (repeated keys / full windows / backlogs are reached far more often than in big graphs)
    per = max(40, n // 6)
    for k in FOCUS_KINDS:
        if faults == "direct" and k == "partition":
            continue
        gk = syncfam.Gen(rng, max_nodes=5, max_events=16 if tier == "quick" else 30, faults=faults,
                         allow=[k, "map", "sink", "union"], md_prob=0.9, feedback=0.1, narrow=True)
        for _ in range(per):
            for _try in range(12):
                c = gk.case()
                if any(sp["k"] == k for sp in c["nodes"]):
                    break
            cases.append(c)
    return cases


def load_corpus(prop):
    d = os.path.join(common.VERIF, "corpus", prop)
    out = []
    if os.path.isdir(d):
        for f in sorted(os.listdir(d)):
            if f.endswith(".json"):
                out.append(json.load(open(os.path.join(d, f)))["case"])
    return out


def shrink(case, still_fails):
    """delta-debug events then nodes (leaves first) while `still_fails(case)` holds"""
    cur = json.loads(json.dumps(case))
    changed = True
    while changed:
        changed = False
        for i in range(len(cur["events"]) - 1, -1, -1):
            c2 = json.loads(json.dumps(cur))
            del c2["events"][i]
            if c2["events"] and _ok(c2) and still_fails(c2):
                cur = c2
                changed = True
        # remove leaf nodes (highest index first), renumbering
        for i in range(len(cur["nodes"]) - 1, 0, -1):
            used = any(i in sp.get("ups", []) for sp in cur["nodes"]) or any(i in e for e in cur.get("fb", []))
            if used:
                continue
            if any(ev[1] == i for ev in cur["events"]):
                continue
            c2 = json.loads(json.dumps(cur))
            del c2["nodes"][i]
            for sp in c2["nodes"]:
                if "ups" in sp:
                    sp["ups"] = [u - 1 if u > i else u for u in sp["ups"]]
            for ev in c2["events"]:
                if ev[1] > i:
                    ev[1] -= 1
            if c2.get("fb"):
                c2["fb"] = [[a - 1 if a > i else a, b - 1 if b > i else b] for a, b in c2["fb"]]
            if _ok(c2) and still_fails(c2):
                cur = c2
                changed = True
                break
    return cur


def _ok(case):
    try:
        syncfam.run_case(case)
        return True
    except Exception:
        return False


def run(prop, tier, seed, replay=None):
    rp = json.load(open(replay)).get("replay", {}) if replay else {}
    if rp.get("family") == "topology-md":
        import topofam
        out = common.Outcome(prop, tier, seed)
        proof = common.props_check(prop)
        known = common.known_signatures(prop)
        bad = topo_md_oracle(rp["case"], topofam.run_case(rp["case"]))
        if bad:
            (out.known_finding(bad[0], known[bad[0]]["what"]) if bad[0] in known else out.violation(bad[0], bad[1], {"case": rp["case"], "family": "topology-md"}))
        return out.finish(proof, {"evaluations": 1, "distinct_nontrivial": 1, "rule": "replay of one topology history with metadata", "samples": [rp["case"]],
                                  "traces_validated_against_impl": 0, "disagreements_checked": len(out.violations)})
    if rp.get("family") == "dataframe-poison":
        import c16_df
        out = common.Outcome(prop, tier, seed)
        proof = common.props_check(prop)
        known = common.known_signatures(prop)
        for (sig, msg) in c16_df.check(rp["case"]):
            (out.known_finding(sig, known[sig]["what"]) if sig in known else out.violation(sig, msg, {"case": rp["case"], "family": "dataframe-poison"}))
        return out.finish(proof, {"evaluations": 1, "distinct_nontrivial": 1, "rule": "replay of one dataframe poison case", "samples": [rp["case"]],
                                  "traces_validated_against_impl": 0, "disagreements_checked": len(out.violations)})
    if rp.get("family") in ("async-single", "async-chain", "threaded") or (isinstance(rp.get("case"), dict) and "nodes" not in rp["case"]):
        # a replay recorded by the asynchronous part of this property's check
        import check_async
        return check_async.run(prop, tier, seed, replay)
    out = common.Outcome(prop, tier, seed)
    proof = common.props_check(prop)
    if prop == "C05":
        # the asynchronous nodes' balance theorems live in Props/C05A.v
        pa = common.props_check("C05A")
        proof["obligations"] += pa["obligations"]
        proof["discharged"] += pa["discharged"]
        proof["theorems"] = proof.get("theorems", []) + pa.get("theorems", [])
        proof["assumptions"] = dict(proof.get("assumptions", {}), **{"A%s" % k: v for k, v in pa.get("assumptions", {}).items()})
        if not pa["ok"]:
            proof["ok"] = False
            proof["failing"] = proof.get("failing") or pa["failing"]
            proof["log"] = proof.get("log", "") + pa.get("log", "")
    faults = "direct" if prop == "C16" else None
    want = {"C01": ("C01",), "C10": ("C10",), "C05": ("C05",), "C16": ("C16",)}[prop]
    rng = random.Random(seed * 1000003 + {"C01": 1, "C10": 10, "C05": 5, "C16": 16}[prop])
    n = {"quick": 600, "thorough": 6000}[tier]
    if replay:
        cases = [json.load(open(replay))["replay"]["case"]]
    else:
        cases = load_corpus(prop) + gen_cases(rng, n, tier, faults)
    known = common.known_signatures(prop)
    co = []
    kinds = {}
    sizes = []
    nontriv = set()
    nfind = 0
    t_impl = time.time()
    for ci, c in enumerate(cases):
        try:
            o, diag = syncfam.run_case(c)
        except Exception as e:
            out.violation("%s/harness-crash" % prop, "driver crashed on case %d: %r" % (ci, e), {"case": c}, no_input=True)
            continue
        co.append((c, o))
        for sp in c["nodes"]:
            kinds[sp["k"]] = kinds.get(sp["k"], 0) + 1
        sizes.append(len(c["nodes"]))
        if syncfam.nontrivial(c, o):
            nontriv.add(json.dumps(c, sort_keys=True))
        if prop == "C16":
            fnd = fault_oracle(c, o, diag)
        else:
            fnd = [f for f in syncoracle.check_case(c, o, diag, want=want) if f[0] in (prop, "GEN")]
        for (p, sig, msg) in fnd:
            if p == "GEN":
                continue
            if sig in known:
                out.known_finding(sig, known[sig]["what"])
                continue
            if nfind < 3:
                def still(c2, sig=sig):
                    try:
                        o2, d2 = syncfam.run_case(c2)
                    except Exception:
                        return False
                    f2 = fault_oracle(c2, o2, d2) if prop == "C16" else syncoracle.check_case(c2, o2, d2, want=want)
                    return any(s == sig for _, s, _ in f2)
                small = shrink(c, still)
                out.violation(sig, msg, {"case": small, "original_case_index": ci})
            nfind += 1
            break
    t_impl = time.time() - t_impl
    # correspondence with the Coq model
    # (a zip_latest that is re-entered through a feedback edge while it drains its backlog re-reads its buffer on every
    #  iteration; the model's drain is a fixed list: such cases are covered by the oracle only)
    co_all = co
    co = [(c, o) for (c, o) in co_all if modelled_case(c)]
    n_fb = sum(1 for (c, _) in co_all if c.get("fb"))
    mism, errors = syncrun.correspondence(prop, co)
    for p, o_ in errors:
        out.violation("%s/correspondence-error" % prop, "coqc failed on generated cases: %s" % o_[-500:], {"file": p}, no_input=True)
    if mism and not out.violations:
        c, o = co[mism[0]]
        out.violation("%s/correspondence/model-differs" % prop,
                      "Coq model and implementation disagree on %d of %d cases (first: case %d); no oracle violation found on those traces"
                      % (len(mism), len(co), mism[0]), {"case": c, "correspondence": "Sync.Pipeline.agree", "mismatching_cases": mism[:20]},
                      no_input=True)
    if not proof["ok"]:
        out.violation("%s/proof/%s" % (prop, proof["failing"]), "proof obligation no longer checks: %s" % proof["failing"],
                      {"theorem_or_file": proof["failing"], "log": proof["log"][-3000:]}, no_input=True)
    topo_cov = None
    if prop == "C10" and not replay:
        # metadata under graph edits: the histories of the topology family (connect / disconnect / destroy / drop, also
        # from inside a delivery) with every emitted value v carrying the metadata [{"v": v}]: whatever a node hands on
        # must carry exactly the ids of the values it is made of, in order (oracle only)
        import check_c15, topofam
        trng = random.Random(seed * 13 + 1010)
        nt = 300 if tier == "quick" else 2000
        nft = 0
        nd = 0
        import gc
        for it in range(nt):
            if it % 100 == 99:
                gc.freeze()      # the driver forces a collection after every operation: keep the recorded traces out of it
            tc = check_c15.gen(trng, tier)
            tc["md"] = True
            try:
                tobs = topofam.run_case(tc)
            except Exception as e:      # noqa
                out.violation("C10/topology/harness-crash", "topology driver crashed: %r" % (e,), {"case": tc, "family": "topology-md"}, no_input=True)
                continue
            bad = topo_md_oracle(tc, tobs)
            nd += sum(len(o["deliv"]) for o in tobs)
            if bad:
                sig, msg = bad
                if sig in known:
                    out.known_finding(sig, known[sig]["what"])
                elif nft < 3:
                    out.violation(sig, msg, {"case": tc, "family": "topology-md"})
                    nft += 1
        topo_cov = {"topology_histories_with_metadata": nt, "deliveries_checked": nd}
    df_cov = None
    if prop == "C16" and not replay:
        # the streaming-dataframe accumulators under a batch on which the aggregation raises (oracle only)
        import c16_df
        drng = random.Random(seed * 7 + 1616)
        dcases = c16_df.cases(drng, 140 if tier == "quick" else 1400)
        nfd = 0
        for dc in dcases:
            for (sig, msg) in c16_df.check(dc):
                if sig in known:
                    out.known_finding(sig, known[sig]["what"])
                elif nfd < 3:
                    out.violation(sig, msg, {"case": dc, "family": "dataframe-poison"})
                    nfd += 1
                break
        df_cov = {"dataframe_poison_cases": len(dcases), "pipelines": sorted(c16_df.PIPES)}
    async_cov = None
    if prop in ("C05", "C10", "C16") and not replay:
        import check_async
        async_cov = check_async.run(prop, tier, seed, extra=out)
    cov = {
        "obligations": proof["obligations"], "discharged": proof["discharged"],
        "evaluations": len(co_all), "distinct_nontrivial": len(nontriv), "feedback_cases": n_fb,
        "rule": "random DAG pipelines over the synchronous catalogue (type-aware generator, boundary-biased parameters, 1-3 entry points, fan-out/fan-in; about one in five fault-free cases has a feedback edge V -> map(mod k) -> unique -> ancestor of V) with random emit/flush events carrying 0-2 metadata dicts; non-trivial = contains a state-dependent node and at least one delivery; distinct by JSON of the case",
        "traces_validated_against_impl": len(co) - len(mism),
        "disagreements_checked": len(mism),
        "node_kind_histogram": kinds,
        "graph_size_minmeanmax": [min(sizes or [0]), round(sum(sizes) / max(1, len(sizes)), 1), max(sizes or [0])],
        "samples": [co[i][0] for i in range(min(2, len(co)))],
        "impl_seconds": round(t_impl, 2),
    }
    if topo_cov:
        cov["topology_part"] = topo_cov
        cov["evaluations"] += topo_cov["topology_histories_with_metadata"]
    if df_cov:
        cov["dataframe_part"] = df_cov
        cov["evaluations"] += df_cov["dataframe_poison_cases"]
        cov["distinct_nontrivial"] += df_cov["dataframe_poison_cases"]
    if async_cov:
        cov["async_part"] = async_cov
        cov["evaluations"] += async_cov.get("evaluations", 0)
        cov["distinct_nontrivial"] += async_cov.get("distinct_nontrivial", 0)
    return out.finish(proof, cov)


def _flat_ints(x):
    if isinstance(x, (tuple, list)):
        r = []
        for y in x:
            r.extend(_flat_ints(y))
        return r
    return [x]


def topo_md_oracle(case, obs):
    kinds = [op[1] for op in case["ops"] if op[0] == "new"]
    for step, (op, o) in enumerate(zip(case["ops"], obs)):
        for (s_, d, x), md in zip(o["deliv"], o.get("deliv_md", [])):
            if md != _flat_ints(x):
                k = kinds[s_] if 0 <= s_ < len(kinds) else "?"
                return ("C10/topology/md-mismatch/%s" % k,
                        "step %d (%s): node %d (%s) handed %r to node %d with metadata ids %r; the values it is made of carry %r"
                        % (step, op, s_, k, x, d, md, _flat_ints(x)))
    return None


def modelled_case(c):
    """a zip_latest that is re-entered through a feedback edge while it drains its backlog re-reads its buffer on every
    iteration; the model's drain is a fixed list: such cases are covered by the oracle only"""
    return not (c.get("fb") and any(c["nodes"][i]["k"] == "zip_latest" for i in syncoracle.cycle_nodes(c)))


def embedded(prop, tier, seed, out, known, want):
    """the synchronous family run on behalf of another property's check (C04: fan-out graphs where one branch
    finishes inside update() and another one holds the element)"""
    rng = random.Random(seed * 1000003 + 404)
    # the asynchronous part that ran before in this process removed the thread's current event loop; a plain
    # synchronous program has one (zip creates a wait-future when an input runs over its bound)
    import asyncio
    try:
        asyncio.get_event_loop()
    except RuntimeError:
        asyncio.set_event_loop(asyncio.new_event_loop())
    cases = gen_cases(rng, {"quick": 300, "thorough": 3000}[tier], tier, None)
    co = []
    nfind = 0
    for ci, c in enumerate(cases):
        try:
            o, diag = syncfam.run_case(c)
        except Exception as e:
            continue
        co.append((c, o))
        for (p, sig, msg) in syncoracle.check_case(c, o, diag, want=want):
            if p not in want:
                continue
            if sig in known:
                out.known_finding(sig, known[sig]["what"])
            elif nfind < 2:
                def still(c2, sig=sig):
                    try:
                        o2, d2 = syncfam.run_case(c2)
                    except Exception:
                        return False
                    return any(s_ == sig for _, s_, _ in syncoracle.check_case(c2, o2, d2, want=want))
                out.violation(sig, msg, {"case": shrink(c, still), "family": "sync"})
                nfind += 1
            break
    n_all = len(co)
    co = [(c, o) for (c, o) in co if modelled_case(c)]
    mism, errors = syncrun.correspondence(prop + "s", co)
    if mism and not out.violations:
        out.violation("%s/correspondence/model-differs/sync" % prop,
                      "Coq model (Sync.Pipeline) and implementation disagree on %d of %d synchronous cases" % (len(mism), len(co)),
                      {"case": co[mism[0]][0], "family": "sync", "correspondence": "Sync.Pipeline.agree"}, no_input=True)
    return {"evaluations": n_all, "traces_validated_against_impl": len(co) - len(mism), "disagreements_checked": len(mism)}


def fault_oracle(case, obs, diag):
    """C16 on a real trace (fault-injecting symbols raise Boom):
    (a) every Boom reaches the emit caller; (b) the node whose function raised behaves afterwards as if
    the failing element had not been offered to it; (c) the failed element's callback never fires."""
    from syncoracle import ref_outputs, Flush
    from symbols import val_from_json
    nodes = case["nodes"]
    N = len(nodes)
    findings = []
    downs = {i: [] for i in range(N)}
    for d, sp in enumerate(nodes):
        for u in sp.get("ups", []):
            downs[u].append(d)
    arrivals = {i: [] for i in range(N)}
    arr_ev = {i: [] for i in range(N)}       # event index of each arrival
    edges = {}
    edge_ev = {}
    failed_events = set()
    tainted = set()          # nodes that were callers on the stack of some failure (their own processing was cut short)
    failed_refs = {}         # rc id -> event index
    prev_booms = 0
    for ei, (ev, o) in enumerate(zip(case["events"], obs)):
        boomed = o["booms"] > prev_booms
        prev_booms = o["booms"]
        if boomed and not o["raised"]:
            findings.append(("C16", "C16/exception-swallowed", "event %d: a user function raised but emit returned normally" % ei))
        if o["raised"] and o.get("exc") not in ("Boom", "StopIteration", "KeyError"):
            findings.append(("C16", "C16/other-exception/%s" % o.get("exc"), "event %d raised %s" % (ei, o.get("exc"))))
        if ev[0] == "flush":
            arrivals[ev[1]].append(Flush)
        fail_entry = o["calls"][-1] if (o["raised"] and o["calls"]) else None
        stack = []
        for ci, (dep, src, dst, x, mids) in enumerate(o["calls"]):
            stack = stack[:dep] + [(src, dst)]
            is_fail = fail_entry is not None and ci == len(o["calls"]) - 1
            port = nodes[dst].get("ups", []).index(src) if src in nodes[dst].get("ups", []) else -1
            if not is_fail:
                arrivals[dst].append((port, x, tuple(mids)))
                arr_ev[dst].append(ei)
            edges.setdefault((src, dst), []).append((x, tuple(mids)))
            edge_ev.setdefault((src, dst), []).append(ei)
        if o["raised"]:
            failed_events.add(ei)
        if fail_entry is not None:
            for (src, dst) in stack[:-1]:
                tainted.add(dst)
            tainted.add(stack[0][0]) if stack and nodes[stack[0][0]].get("ups") else None
            for (i, r) in fail_entry[4]:
                if r:
                    failed_refs.setdefault(i, ei)
            if ev[0] == "emit":
                for (i, r) in ev[3]:
                    if r:
                        failed_refs.setdefault(i, ei)
        for r, e0 in failed_refs.items():
            if r in o["fired"]:
                findings.append(("C16", "C16/callback-for-failed", "counter %d belongs to the element that failed in event %d but its callback fired (seen after event %d)" % (r, e0, ei)))
            elif o["counts"][r] < 1:
                findings.append(("C16", "C16/count-zero-for-failed", "counter %d of the element that failed in event %d has count %d" % (r, e0, o["counts"][r])))
        if findings:
            return findings
    # (b) state intact: nodes that raised themselves (never as callers of a failing cascade) behave as the
    #     list-level meaning of their arrivals WITHOUT the failed ones
    for u, sp in enumerate(nodes):
        if u in tainted or not sp.get("ups"):
            continue
        try:
            exp_out, _ = ref_outputs(sp, arrivals[u], len(sp.get("ups", [])))
        except Exception:
            continue
        if sp["k"] == "sink":
            got = diag["sinkdata"].get(u, [])
            exp = [a[1] for a in arrivals[u] if a is not Flush]
            if got != exp:
                findings.append(("C16", "C16/state-after-failure/sink", "sink %d recorded %r, non-failing arrivals are %r" % (u, got[:10], exp[:10])))
            continue
        for d in downs[u]:
            if nodes[d]["k"] == "slice" and nodes[d]["end"] is not None:
                continue
            got = [g[0] for g in edges.get((u, d), [])]
            exp = [e[0] for e in exp_out]
            if got != exp:
                findings.append(("C16", "C16/state-after-failure/%s" % sp["k"],
                                 "node %d (%s) sent %r to %d; as if failing elements had not been offered: %r" % (u, sp["k"], got[:10], d, exp[:10])))
                break
    # (b') callers: a node that was on the stack when something BELOW it failed had already taken the element in; later
    #      elements are processed as if the failing element had not been offered to the FAILING node only, so the
    #      caller's own state includes it.  Per event: what the node sent on each edge is its list-level output for the
    #      arrivals of that event (for an event that failed: a prefix of it, the exception cut the rest short).
    for u, sp in enumerate(nodes):
        if u not in tainted or not sp.get("ups") or sp["k"] in ("sink", "zip_latest", "collect"):
            continue
        try:
            outs_upto = [ref_outputs(sp, arrivals[u][:j], len(sp.get("ups", [])))[0] for j in range(len(arrivals[u]) + 1)]
        except Exception:
            continue
        if any(outs_upto[j + 1][:len(outs_upto[j])] != outs_upto[j] for j in range(len(arrivals[u]))):
            continue                      # (not a prefix-extending meaning: no attribution)
        per_ev = {}
        for j, a in enumerate(arrivals[u]):
            if a is Flush:
                continue
            per_ev.setdefault(arr_ev[u][j - sum(1 for b in arrivals[u][:j] if b is Flush)], []).extend(
                e[0] for e in outs_upto[j + 1][len(outs_upto[j]):])
        bad = False
        for d in downs[u]:
            if nodes[d]["k"] == "slice" and nodes[d]["end"] is not None:
                continue
            got_ev = {}
            for (g, e_i) in zip(edges.get((u, d), []), edge_ev.get((u, d), [])):
                got_ev.setdefault(e_i, []).append(g[0])
            for e_i in sorted(set(per_ev) | set(got_ev)):
                exp = per_ev.get(e_i, [])
                got = got_ev.get(e_i, [])
                ok = (got == exp[:len(got)]) if e_i in failed_events else (got == exp)
                if not ok:
                    findings.append(("C16", "C16/caller-state-after-failure/%s" % sp["k"],
                                     "node %d (%s) was above a failure earlier; in event %d it sent %r to %d, with the failing element counted in it sends %r"
                                     % (u, sp["k"], e_i, got[:10], d, exp[:10])))
                    bad = True
                    break
            if bad:
                break
    return findings


if __name__ == "__main__":
    import argparse
    ap = argparse.ArgumentParser()
    ap.add_argument("prop")
    ap.add_argument("--tier", default=common.tier_from_env())
    ap.add_argument("--replay")
    a = ap.parse_args()
    sys.exit(run(a.prop, a.tier, common.seed_from_env(), a.replay))
