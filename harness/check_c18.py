"""C18 - source lifecycle: one polling loop at a time, nothing new after stop, from_iterable exact.

Every history - including back-to-back start/stop calls inside one loop callback (["multi", calls] = SMulti) and
the consumer calling stop() from inside its callback ("stop_on" = ss_stop_on) - is compared with the Coq model
Ext/SourceLife.v (s_agree, evaluated inside Coq by vm_compute); the oracle clauses are checked on the real trace as well."""
import itertools, json, os, random, sys
sys.path.insert(0, os.path.dirname(os.path.abspath(__file__)))
import common, srcfam
from symbols import z


def coq_case(name, case, obs, fixed=True):
    sp = case["src"]
    kind = "(SPeriodic %s)" % z(sp["poll"]) if sp["k"] == "periodic" else "(SIterable [%s])" % "; ".join(z(i) for i in sp["items"])
    acts = []
    for a in case["actions"]:
        if a[0] == "multi":
            # back-to-back calls inside one loop callback
            acts.append("SMulti [%s]" % "; ".join({"start": "CStart", "stop": "CStop"}[c] for c in a[1]))
        else:
            acts.append({"start": "SStart", "stop": "SStop", "ack": "SAck"}.get(a[0]) or "SAdv %s" % z(a[1]))
    # the consumer's stop() from inside its callback (on the source or, walking upstream, on the sink node)
    on = "(Some %s)" % z(case["stop_on"]) if "stop_on" in case else "None"
    ob = ["{| so_now := %s; so_deliv := [%s]; so_stopped := %s |}" % (
        z(o["now"]), "; ".join("(%s, %s)" % (z(t), z(v)) for t, v in o["deliv"]), "true" if o["stopped"] else "false") for o in obs[1:]]
    return ("Definition %s : scase := {| sc_init := s_init %s %s %s %s; sc_acts := [%s]; sc_observed := [%s] |}.\n"
            % (name, "true" if fixed else "false", kind, "true" if case.get("sink") == "sync" else "false", on, "; ".join(acts), ";\n  ".join(ob)))


HEADER = "From Coq Require Import List ZArith.\nFrom SZ Require Import Ext.SourceLife.\nImport ListNotations.\n"


def correspondence(tag, cos, fixed=True, shard=300):
    d = common.scratch(tag)
    files = []
    for s in range(0, len(cos), shard):
        p = os.path.join(d, "cases_%d_%s.v" % (s // shard, "f" if fixed else "a"))
        with open(p, "w") as f:
            f.write(HEADER)
            names = []
            for j, (c, o) in enumerate(cos[s:s + shard]):
                f.write(coq_case("c%d" % (s + j), c, o, fixed))
                names.append("c%d" % (s + j))
            f.write("Eval vm_compute in (map (fun i => i + %d) (s_mismatches [%s])).\n" % (s, "; ".join(names)))
        files.append(p)
    res = common.run_case_files(files)
    mism, errors = [], []
    for p in files:
        rc, out = res[p]
        lst = common.parse_natlist(out) if rc == 0 else None
        if lst is None:
            errors.append((p, out[-800:]))
        else:
            mism.extend(lst)
    return sorted(mism), errors


def oracle_textfile(case, obs):
    """from_textfile across stop / start: every complete line of the file is handed on exactly once, in file order, and
    nothing is handed on while the source is stopped (other than the completion of the cycle in progress)"""
    out = []
    sp = case["src"]
    lines = list(sp["lines"])
    vals = []
    for a, o in zip([None] + case["actions"], obs):
        if a is not None and a[0] == "append":
            lines.extend(a[1])
        vals.extend(v for (t, v) in o["deliv"])
        if vals != lines[:len(vals)]:
            out.append(("C18", "C18/textfile/order-or-dup", "delivered %r, the file holds %r" % (vals, lines)))
            return out
    return out


def oracle(case, obs):
    """the property clauses on the real trace"""
    out = []
    sp = case["src"]
    if sp["k"] == "textfile":
        return oracle_textfile(case, obs)
    deliv = [(t, v, step) for step, o in enumerate(obs) for (t, v) in o["deliv"]]
    vals = [v for _, v, _ in deliv]
    if sp["k"] == "periodic":
        # the callback returns 1, 2, 3, ...: each exactly once, in order
        if vals != list(range(1, len(vals) + 1)):
            out.append(("C18", "C18/periodic/order-or-dup", "delivered %r" % vals[:12]))
        # one polling loop: two polls are at least poll apart (synchronous or controlled sink alike)
        ts = [t for t, _, _ in deliv]
        for a, b in zip(ts, ts[1:]):
            if b - a < sp["poll"] and not _restarted_between(case, obs, a, b):
                out.append(("C18", "C18/two-loops/periodic", "polls at %d and %d with poll interval %d" % (a, b, sp["poll"])))
                break
    else:
        items = sp["items"]
        if vals != items[:len(vals)]:
            out.append(("C18", "C18/iterable/order-or-dup", "delivered %r of %r" % (vals, items)))
        if case.get("sink") == "ctl":
            for o in obs:
                if o["nout"] > 1:
                    out.append(("C18", "C18/iterable/no-backpressure", "%d items outstanding at the consumer" % o["nout"]))
                    break
    # stop() called by the consumer from inside its callback: nothing may follow the element that triggered it until the
    # next start()
    if "stop_on" in case:
        hit = None
        for step, (a, o) in enumerate(zip([None] + case["actions"], obs)):
            if hit is not None and a is not None and (a[0] == "start" or (a[0] == "multi" and "start" in a[1])):
                break
            for (t, v) in o["deliv"]:
                if hit is not None:
                    out.append(("C18", "C18/emit-after-stop/%s/stop-inside-callback" % sp["k"],
                                "step %d: the consumer called stop() when it was handed %r, yet %r was delivered afterwards (no start() in between)" % (step, case["stop_on"], v)))
                    return out
                if v == case["stop_on"]:
                    hit = step
    # nothing new after stop: a step taken while stopped (other than start) delivers nothing new,
    # except the completion of the cycle in progress (none of our sources emits at the END of a cycle)
    stopped = True
    for step, (a, o) in enumerate(zip([None] + case["actions"], obs)):
        if a is not None and a[0] == "multi":
            # back-to-back calls: a source that was stopped before them and is stopped after them has begun no cycle
            if stopped and a[1] and a[1][-1] == "stop" and o["stopped"] and o["deliv"]:
                out.append(("C18", "C18/emit-after-stop/%s/back-to-back" % sp["k"],
                            "step %d %r: the source was stopped before and after these calls but delivered %r" % (step, a[1], o["deliv"])))
                break
            stopped = o["stopped"]
            continue
        if a is not None and a[0] != "start" and stopped and o["deliv"]:
            out.append(("C18", "C18/emit-after-stop/%s" % sp["k"], "step %d (%s) delivered %r although the source was stopped" % (step, a[0], o["deliv"])))
            break
        if a is not None and a[0] == "start":
            stopped = False
        if a is not None and a[0] == "stop":
            stopped = True
        stopped = o["stopped"] if a is not None else stopped
    return out


def _restarted_between(case, obs, t0, t1):
    return False


def gen(rng, tier):
    k = rng.choice(["periodic", "iterable"])
    sp = {"k": "periodic", "poll": rng.choice([1, 2, 3, 4])} if k == "periodic" else {"k": "iterable", "items": list(range(10, 10 + rng.choice([0, 1, 2, 3, 5])))}
    acts = []
    for _ in range(rng.randint(1, 14 if tier == "quick" else 30)):
        u = rng.random()
        if u < 0.3:
            acts.append(["start"])
        elif u < 0.55:
            acts.append(["stop"])
        elif u < 0.8:
            acts.append(["ack"])
        else:
            acts.append(["adv", rng.choice([1, 1, 2, 3, 4, 5])])
        if rng.random() < 0.25 and acts[-1][0] == "stop":
            acts.append(["start"])          # stop immediately followed by start
        if rng.random() < 0.15:
            # back-to-back calls without a turn of the loop (the polling coroutine has not started / noticed yet)
            acts.append(["multi", rng.choice([["start", "stop", "start"], ["stop", "start"], ["start", "start"],
                                              ["start", "stop"], ["stop", "start", "stop", "start"]])])
    c = {"src": sp, "sink": rng.choice(["ctl", "ctl", "sync"]), "actions": acts}
    if rng.random() < 0.25:
        c["stop_on"] = rng.choice([1, 2, 3]) if k == "periodic" else rng.choice([10, 11, 12])
        c["stop_via"] = rng.choice(["src", "node"])
    return c


def gen_textfile(rng, tier):
    """from_textfile with a backlog of lines, a controlled (backpressuring) or synchronous consumer, stop / start placed
    anywhere (also while a line of a backlog is held up by the consumer), lines appended while stopped or running"""
    v = [100]

    def fresh(n):
        r = list(range(v[0], v[0] + n))
        v[0] += n
        return r
    sp = {"k": "textfile", "lines": fresh(rng.choice([0, 1, 2, 3, 3, 4])), "poll": rng.choice([1, 2, 3])}
    acts = [["start"]]
    for _ in range(rng.randint(2, 12 if tier == "quick" else 24)):
        u = rng.random()
        if u < 0.3:
            acts.append(["ack"])
        elif u < 0.45:
            acts.append(["stop"])
        elif u < 0.6:
            acts.append(["start"])
        elif u < 0.8:
            acts.append(["adv", rng.choice([1, 2, 3, 5])])
        else:
            acts.append(["append", fresh(rng.choice([1, 1, 2, 3]))])
    return {"src": sp, "sink": rng.choice(["ctl", "ctl", "sync"]), "actions": acts}


def exhaustive(tier):
    """every start/stop placement around the suspension points of short runs"""
    cases = []
    alphabet = [["start"], ["stop"], ["ack"], ["adv", 2], ["multi", ["start", "stop"]]]
    n = 5 if tier == "quick" else 7
    for sp in ({"k": "periodic", "poll": 2}, {"k": "iterable", "items": [10, 11, 12]}):
        for sink in ("ctl", "sync"):
            for seq in itertools.product(range(5), repeat=n):
                if seq[0] not in (0, 4):
                    continue
                cases.append({"src": sp, "sink": sink, "actions": [alphabet[i] for i in seq]})
    # the consumer stops the source from inside its callback (at the 1st / 2nd element), every shorter word; the
    # restart may also come as back-to-back stop(); start()
    alphabet_on = alphabet[:4] + [["multi", ["stop", "start"]]]
    for sp, vals in (({"k": "periodic", "poll": 2}, (1, 2)), ({"k": "iterable", "items": [10, 11, 12, 13]}, (10, 11))):
        for sink in ("ctl", "sync"):
            for v in vals:
                for via in ("src", "node"):
                    for seq in itertools.product(range(5), repeat=n - 2):
                        cases.append({"src": sp, "sink": sink, "stop_on": v, "stop_via": via, "actions": [["start"]] + [alphabet_on[i] for i in seq]})
    # back-to-back calls that end with start(): one callback that restarts, with and without a live polling loop
    alphabet_bb = alphabet[:4] + [["multi", ["stop", "start"]], ["multi", ["start", "stop", "start"]]]
    m = 4 if tier == "quick" else 5
    for sp in ({"k": "periodic", "poll": 2}, {"k": "iterable", "items": [10, 11, 12]}):
        for sink in ("ctl", "sync"):
            for seq in itertools.product(range(6), repeat=m):
                if seq[0] not in (0, 4, 5) or not any(i >= 4 for i in seq):
                    continue
                cases.append({"src": sp, "sink": sink, "actions": [alphabet_bb[i] for i in seq]})
    return cases


def run(prop, tier, seed, replay=None):
    out = common.Outcome(prop, tier, seed)
    proof = common.props_check(prop)
    known = common.known_signatures(prop)
    rng = random.Random(seed * 31 + 18)
    if replay:
        cases = [json.load(open(replay))["replay"]["case"]]
    else:
        cases = exhaustive(tier) + [gen(rng, tier) for _ in range(400 if tier == "quick" else 6000)]
        cases += [gen_textfile(rng, tier) for _ in range(300 if tier == "quick" else 3000)]
    cos = []
    nontriv = set()
    nfind = 0
    for c in cases:
        try:
            o = srcfam.run_case(c)
        except Exception as e:
            out.violation("C18/harness-crash", "driver crashed: %r" % (e,), {"case": c}, no_input=True)
            continue
        cos.append((c, o))
        if any(ob["deliv"] for ob in o):
            nontriv.add(json.dumps(c, sort_keys=True))
        for (p, sig, msg) in oracle(c, o):
            if sig in known:
                out.known_finding(sig, known[sig]["what"])
            elif nfind < 3:
                out.violation(sig, msg, {"case": c})
                nfind += 1
            break
    cos_all = cos          # every from_periodic / from_iterable history goes through the model correspondence
    cos = [(c, o) for (c, o) in cos_all if c["src"]["k"] != "textfile"]      # (from_textfile: oracle only)
    mism, errors = correspondence("C18", cos, fixed=True)
    for p, o in errors:
        out.violation("C18/correspondence-error", "coqc failed: %s" % o[-300:], {"file": p}, no_input=True)
    if mism and not out.violations:
        # does the tree match the as-found variant (the defect has returned)?
        mism_a, _ = correspondence("C18a", cos, fixed=False)
        what = "Coq model (repaired variant) and implementation disagree on %d of %d histories" % (len(mism), len(cos))
        if not mism_a:
            what += "; the tree matches the AS-FOUND variant (two polling loops after stop()/start())"
        out.violation("C18/correspondence/model-differs", what, {"case": cos[mism[0]][0], "correspondence": "Ext.SourceLife.s_agree"}, no_input=True)
    if not proof["ok"]:
        out.violation("C18/proof/%s" % proof["failing"], "proof obligation no longer checks: %s" % proof["failing"],
                      {"theorem_or_file": proof["failing"], "log": proof["log"][-2000:]}, no_input=True)
    cov = {"evaluations": len(cos_all), "oracle_only_cases(from_textfile across stop/start)": len(cos_all) - len(cos),
           "cases_with_back_to_back_calls": sum(1 for (c, o) in cos_all if any(a[0] == "multi" for a in c["actions"])),
           "cases_with_stop_inside_callback": sum(1 for (c, o) in cos_all if "stop_on" in c), "distinct_nontrivial": len(nontriv),
           "rule": "exhaustive words over start / stop / ack / advance / back-to-back start();stop() of length 5 (quick) or 7 (thorough) over from_periodic and from_iterable with controlled and synchronous sinks; every word of length 3 (5) after a start with a consumer that calls stop() from inside its callback at the 1st or 2nd element (on the source or on the sink node), the restart also as back-to-back stop();start(); every word of length 4 (5) with back-to-back calls that end with start(); plus random longer histories (stop immediately followed by start is favoured, back-to-back calls and reacting consumers mixed in). ALL histories are compared with the Coq model (SMulti, ss_stop_on) inside Coq; non-trivial = at least one delivery",
           "exhaustive": False, "traces_validated_against_impl": len(cos) - len(mism), "disagreements_checked": len(mism),
           "samples": [cos[i][0] for i in (0, len(cos) // 2) if cos]}
    return out.finish(proof, cov)
