"""Dispatch bin/check <prop> to the family module."""
import argparse, os, sys
sys.path.insert(0, os.path.dirname(os.path.abspath(__file__)))
import common

FAMILY = {"C01": "check_sync", "C10": "check_sync", "C05": "check_sync", "C16": "check_sync",
          "C02": "check_async", "C03": "check_async", "C04": "check_async", "C08": "check_async",
          "C13": "check_async", "C14": "check_async"}

ap = argparse.ArgumentParser()
ap.add_argument("prop")
ap.add_argument("--tier", default=common.tier_from_env())
ap.add_argument("--replay")
a = ap.parse_args()
modname = FAMILY.get(a.prop)
if modname is None:
    cand = "check_%s" % a.prop.lower()
    if os.path.exists(os.path.join(os.path.dirname(os.path.abspath(__file__)), cand + ".py")):
        modname = cand
if modname is None:
    print("no check for", a.prop)
    sys.exit(2)
try:
    import gen_kernels
    gen_kernels.regenerate()
except ImportError:
    pass
mod = __import__(modname)
sys.exit(mod.run(a.prop, a.tier, common.seed_from_env(), a.replay))
