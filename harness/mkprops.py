"""Generate Props/<id>.v for the asynchronous properties from proved lemmas: each statement is obtained from
Coq itself (`Check @lemma`), restated as `Theorem <id>_<lemma> : <type>. Proof. exact @lemma. Qed.` and followed by
`Print Assumptions`.  Run once when lemmas are added; the generated files are committed."""
import os, re, subprocess, sys
COQ = os.path.join(os.path.dirname(os.path.dirname(os.path.abspath(__file__))), "coq")

SPEC = {
 "C02": ("asynchronous timing never changes what lossless pipelines deliver",
   [("Async.BufferProofs", "buffer_fifo"), ("Async.DelayProofs", "delay_fifo"), ("Async.RateLimitProofs", "rl_fifo"),
    ("Async.MapAsyncProofs", "map_async_order"), ("Async.TimedWindowProofs", "tw_conserve"),
    ("Async.TimedWindowProofs", "tw_unique_keys"), ("Async.PartitionTOProofs", "partition_conserve"),
    ("Async.ZipBPProofs", "zip_pairs_partial"), ("Async.ZipBPProofs", "zip_pairs_md"), ("Async.Compose", "chain_prefix"),
    ("Async.Compose", "chain_complete")]),
 "C03": ("backpressure: emit waits, in-flight data bounded, no lost wake-up",
   [("Async.BufferProofs", "buffer_bound"), ("Async.BufferProofs", "buffer_no_lost_wakeup"), ("Async.BufferProofs", "buffer_done"),
    ("Async.MapAsyncProofs", "map_async_bound_p1"), ("Async.MapAsyncProofs", "map_async_bound_refuted"),
    ("Async.MapAsyncProofs", "map_async_queue_bound"), ("Async.ZipBPProofs", "zip_waiters_released"),
    ("Async.TimedWindowProofs", "tw_waiting"), ("Async.TimedWindowProofs", "tw_done"), ("Async.DelayProofs", "delay_done"),
    ("Async.LatestProofs", "latest_done"), ("Async.RateLimitProofs", "rl_done"), ("Async.Plain", "plain_emit_waits")]),
 "C04": ("the completion callback never precedes completion",
   [("Async.BufferProofs", "buffer_cb_not_early"), ("Async.DelayProofs", "delay_cb_not_early"),
    ("Async.LatestProofs", "latest_cb_not_early"), ("Async.LatestProofs", "latest_slot_kept"),
    ("Async.RateLimitProofs", "rl_cb_not_early"), ("Async.TimedWindowProofs", "tw_cb_not_early"),
    ("Async.PartitionTOProofs", "partition_cb_not_early"), ("Async.MapAsyncProofs", "map_async_cb_not_early"),
    ("Async.ZipBPProofs", "zip_cb_not_early_buffered"), ("Async.ZipBPProofs", "zip_cb_early_refuted"),
    ("Async.Plain", "plain_cb_early_refuted"), ("Base.BridgeRefCounter", "bridge_rc_release_async"),
    ("Base.BridgeRefCounter", "bridge_rc_retain_async"),
    # Stream._retain_refs / _release_refs regenerated from the source (harness/gen_emit.py) are the model's retain / release
    ("Base.BridgeEmit", "bridge_retain_refs"), ("Base.BridgeEmit", "bridge_release_refs")]),
 "C08": ("time windows conserve elements and honour their deadline",
   [("Async.TimedWindowProofs", "tw_conserve"), ("Async.TimedWindowProofs", "tw_unique_keys"),
    ("Async.TimedWindowProofs", "tw_deadline"), ("Async.TimedWindowProofs", "tw_sync_never_awaits"),
    ("Async.PartitionTOProofs", "partition_size"), ("Async.PartitionTOProofs", "partition_conserve"),
    ("Async.PartitionTOProofs", "partition_timer_inv_gen"), ("Async.PartitionTOProofs", "partition_buf_bound"),
    ("Async.PartitionTOProofs", "partition_no_timeout_no_timers")]),
 "C13": ("rate_limit spaces emissions by at least the interval and keeps order; delay keeps order and count",
   [("Async.RateLimitProofs", "rl_spacing"), ("Async.RateLimitProofs", "rl_fifo"), ("Async.RateLimitProofs", "rl_idle_no_delay"),
    ("Async.RateLimitProofs", "rl_done_sync"), ("Async.RateLimitProofs", "rl_sleepers_spaced"),
    ("Async.RateLimitProofs", "rl_idle_no_sleepers"), ("Async.DelayProofs", "delay_fifo"), ("Async.DelayProofs", "delay_done"),
    ("Async.DelayProofs", "delay_times_sorted"), ("Async.DelayProofs", "delay_no_stall"),
    ("Base.BridgeRateLimit", "bridge_rl_next"), ("Base.BridgeRateLimit", "bridge_rl_delivery")]),
 "C14": ("latest delivers an in-order subsequence ending with the newest element",
   [("Async.LatestProofs", "latest_subseq"), ("Async.LatestProofs", "latest_final"), ("Async.LatestProofs", "latest_done")]),
 "C05A": ("asynchronous part of C05: count = holders at every quiescent point of every schedule",
   [("Async.BufferProofs", "buffer_balance"), ("Async.DelayProofs", "delay_balance"), ("Async.LatestProofs", "latest_balance"),
    ("Async.RateLimitProofs", "rl_balance"), ("Async.TimedWindowProofs", "tw_balance"),
    ("Async.PartitionTOProofs", "partition_balance"), ("Async.MapAsyncProofs", "map_async_balance"),
    ("Async.ZipBPProofs", "zip_balance"), ("Async.BufferProofs", "buffer_count_nonneg"),
    ("Async.MapAsyncProofs", "map_async_count_nonneg")]),
}


def coq_type(mod, lemma):
    src = "From Coq Require Import List ZArith Bool Arith Permutation Sorted.\nFrom SZ Require Import Base.Values.\nFrom SZ Require Import Sync.Nodes.\nFrom SZ Require Import Async.Core.\nFrom SZ Require Import %s.\nImport ListNotations.\nSet Printing Width 100000.\nSet Printing Depth 100000.\nCheck @%s.\n" % (mod, lemma)
    p = "/tmp/mkprops_tmp.v"
    open(p, "w").write(src)
    r = subprocess.run("cd %s && coqc -Q theories SZ -w none %s" % (COQ, p), shell=True, capture_output=True, text=True)
    out = r.stdout
    m = re.search(r"@?%s\s*:\s*(.*)" % re.escape(lemma), out, re.S)
    if not m:
        raise RuntimeError("cannot get type of %s.%s: %s %s" % (mod, lemma, out[-500:], r.stderr[-500:]))
    return " ".join(m.group(1).split())


def main(which):
    for pid, (title, lemmas) in SPEC.items():
        if which and pid not in which:
            continue
        mods = []
        for mod, _ in lemmas:
            if mod not in mods:
                mods.append(mod)
        lines = ["(* %s - %s." % (pid.replace("C05A", "C05 (asynchronous part)"), title),
                 "   Statements restated from the proof files by harness/mkprops.py; every theorem quantifies over ALL action",
                 "   lists (schedules of emits, consumer completions, task completions, time advances). *)",
                 "From Coq Require Import List ZArith Bool Arith Permutation Sorted.",
                 "From SZ Require Import Base.Values.", "From SZ Require Import Sync.Nodes.", "From SZ Require Import Async.Core."]
        lines += ["From SZ Require %s." % m for m in mods]
        lines += ["Import ListNotations.", ""]
        for mod, lem in lemmas:
            ty = coq_type(mod, lem)
            name = "%s_%s" % (pid.replace("C05A", "C05A"), lem)
            lines.append("(* from %s *)" % mod)
            lines.append("Section S_%s.\nImport SZ.%s.\nTheorem %s : %s.\nProof. exact (@%s). Qed.\nEnd S_%s." % (lem + "_" + mod.split(".")[-1], mod, name, ty, lem, lem + "_" + mod.split(".")[-1]))
            lines.append("Print Assumptions %s.\n" % name)
        fn = os.path.join(COQ, "theories", "Props", ("%s.v" % pid) if pid != "C05A" else "C05A.v")
        open(fn, "w").write("\n".join(lines) + "\n")
        print("wrote", fn)


if __name__ == "__main__":
    main(sys.argv[1:])
