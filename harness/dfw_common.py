"""Shared helpers for C07 (windowed aggregations) and C11 (rolling / cumulative / ewm):
frames from plain data, batch compositions, canonical results, exact-rational Coq encoding.

A table is a list of rows [stamp:int, key:int, val:int|None]; None is NaN.  A case fixes a table and a list of
consecutive batch sizes (0 = empty batch).  Stamps are integer nanoseconds (datetime64[ns] index) so that the
1ns window boundary of diff_loc is hit exactly."""
import itertools
import math
import os
import sys
import warnings
from fractions import Fraction

sys.path.insert(0, os.path.dirname(os.path.abspath(__file__)))
warnings.simplefilter("ignore")

import numpy as np
import pandas as pd


def mkframe(rows, dt=True):
    idx = [r[0] for r in rows]
    if dt:
        index = pd.DatetimeIndex(np.array(idx, dtype="int64").astype("datetime64[ns]"))
    else:
        index = pd.Index(np.array(idx, dtype="int64"))
    return pd.DataFrame({"x": np.array([np.nan if r[2] is None else float(r[2]) for r in rows], dtype="float64"),
                         "k": np.array([r[1] for r in rows], dtype="int64")}, index=index)


def batches_of(rows, sizes):
    out, i = [], 0
    for s in sizes:
        out.append(rows[i:i + s])
        i += s
    assert i == len(rows)
    return out


def compositions(n):
    """all compositions of n into positive parts"""
    if n == 0:
        yield []
        return
    for bits in itertools.product([0, 1], repeat=n - 1):
        parts, cur = [], 1
        for b in bits:
            if b:
                parts.append(cur)
                cur = 1
            else:
                cur += 1
        parts.append(cur)
        yield parts


def with_empties(parts, positions):
    """insert empty batches at the given positions (indices into the resulting list, ascending)"""
    out = list(parts)
    for p in positions:
        out.insert(min(p, len(out)), 0)
    return out


# ----------------------------------------------------------------------------------------------
# canonical results
# ----------------------------------------------------------------------------------------------

def encnum(v):
    """float/int -> None (NaN) | 'inf' | '-inf' | float"""
    if v is None:
        return None
    try:
        if pd.isna(v):
            return None
    except (TypeError, ValueError):
        pass
    v = float(v)
    if math.isinf(v):
        return "inf" if v > 0 else "-inf"
    return v


def canon(res):
    """result of an aggregation -> ['s', num] | ['m', [[key, num], ...]] sorted by key | ['l', [num, ...]]"""
    if isinstance(res, pd.DataFrame):
        if res.shape[1] != 1:
            raise TypeError("unexpected frame result with columns %r" % (list(res.columns),))
        res = res.iloc[:, 0]
    if isinstance(res, pd.Series):
        items = []
        for k, v in res.items():
            if isinstance(k, pd.Timestamp):
                k = k.value
            kk = float(k)
            items.append([int(kk) if kk == int(kk) else kk, encnum(v)])
        items.sort(key=lambda kv: kv[0])
        return ["m", items]
    return ["s", encnum(res)]


def canon_list(series):
    """a Series/one-column frame of per-row results -> list of nums (positional)"""
    if isinstance(series, pd.DataFrame):
        series = series.iloc[:, 0]
    return [encnum(v) for v in series.tolist()]


def num_close(a, b, exact):
    if a is None or b is None or isinstance(a, str) or isinstance(b, str):
        return a == b
    if exact:
        return a == b
    return abs(a - b) <= 1e-9 * max(1.0, abs(a), abs(b))


def canon_close(a, b, exact):
    if a[0] != b[0]:
        return False
    if a[0] == "s":
        return num_close(a[1], b[1], exact)
    if a[0] == "l":
        return len(a[1]) == len(b[1]) and all(num_close(x, y, exact) for x, y in zip(a[1], b[1]))
    if len(a[1]) != len(b[1]):
        return False
    return all(x[0] == y[0] and num_close(x[1], y[1], exact) for x, y in zip(a[1], b[1]))


# ----------------------------------------------------------------------------------------------
# Coq text
# ----------------------------------------------------------------------------------------------

def coq_z(n):
    return "(%d)%%Z" % int(n)


def coq_q(fr):
    fr = Fraction(fr)
    return "(Qmake (%d)%%Z %d%%positive)" % (fr.numerator, fr.denominator)


def coq_onum(v):
    """None -> ONan ; 'inf' -> OInf ; float -> exact rational of the float"""
    if v is None:
        return "ONan"
    if isinstance(v, str):
        return "OInf"
    return "(ONum %s)" % coq_q(Fraction(v))


def coq_row(r):
    v = "None" if r[2] is None else "(Some %s)" % coq_q(Fraction(r[2]))
    return "(mkRow %s %s %s)" % (coq_z(r[0]), coq_z(r[1]), v)


def coq_list(items):
    return "[" + "; ".join(items) + "]"


def coq_batches(rows, sizes):
    return coq_list([coq_list([coq_row(r) for r in b]) for b in batches_of(rows, sizes)])


def coq_canon(c):
    if c[0] == "s":
        return "(RScal %s)" % coq_onum(c[1])
    if c[0] == "l":
        return "(RList %s)" % coq_list([coq_onum(v) for v in c[1]])
    return "(RMap %s)" % coq_list(["(%s, %s)" % (coq_z(k), coq_onum(v)) for k, v in c[1]])
