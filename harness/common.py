"""Common machinery for all checks: paths, Coq build/evaluation, evidence,
known findings, verdict printing."""
import json
import os
import re
import shutil
import subprocess
import sys
import time

VERIF = os.path.dirname(os.path.dirname(os.path.abspath(__file__)))
REPO = os.environ.get("VERIF_REPO", "/repo")
COQ = os.path.join(VERIF, "coq")
BUILD = os.path.join(VERIF, "build")
EVID = os.path.join(VERIF, "evidence")
NCPU = int(os.environ.get("VERIF_JOBS", "16"))

FORBIDDEN = re.compile(r"\b(Admitted|admit|Axiom|Axioms|Parameter|Parameters|Conjecture|Conjectures|"
                       r"Unset\s+Guard|bypass_check|Admit\s+Obligations|type-in-type|impredicative-set|"
                       r"Unset\s+Positivity|Unset\s+Universe|native_compute)\b")

# axioms that may appear in Print Assumptions output (none are needed so far; listed in DESIGN 6)
ALLOWED_AXIOMS = set()


def sh(cmd, timeout=600, cwd=None, env=None, check=False):
    t0 = time.time()
    try:
        p = subprocess.run(cmd, shell=isinstance(cmd, str), cwd=cwd, env=env, timeout=timeout,
                           stdout=subprocess.PIPE, stderr=subprocess.STDOUT, text=True)
        out, rc = p.stdout, p.returncode
    except subprocess.TimeoutExpired as e:
        out = (e.stdout or "") if isinstance(e.stdout, str) else (e.stdout or b"").decode("utf8", "replace")
        out += "\n[TIMEOUT after %ss]" % timeout
        rc = 124
    if check and rc != 0:
        raise RuntimeError("command failed (%s): %s\n%s" % (rc, cmd, out[-4000:]))
    return rc, out, time.time() - t0


# ---------------------------------------------------------------------------
# Coq
# ---------------------------------------------------------------------------

def coq_sources():
    res = []
    for root, _, files in os.walk(os.path.join(COQ, "theories")):
        for f in files:
            if f.endswith(".v"):
                res.append(os.path.join(root, f))
    return sorted(res)


def strip_comments(text):
    out = []
    depth = 0
    i = 0
    while i < len(text):
        if text.startswith("(*", i):
            depth += 1
            i += 2
        elif text.startswith("*)", i) and depth:
            depth -= 1
            i += 2
        else:
            if depth == 0:
                out.append(text[i])
            i += 1
    return "".join(out)


def grep_gate():
    """No Admitted/Axiom/... anywhere in the development (comments ignored)."""
    bad = []
    for p in coq_sources():
        txt = strip_comments(open(p).read())
        for m in FORBIDDEN.finditer(txt):
            line = txt.count("\n", 0, m.start()) + 1
            bad.append("%s:%d:%s" % (os.path.relpath(p, VERIF), line, m.group(0)))
    return bad


def ensure_makefile():
    mk = os.path.join(COQ, "Makefile.coq")
    srcs = [os.path.relpath(p, COQ) for p in coq_sources()]
    listing = "\n".join(srcs)
    stamp = os.path.join(COQ, ".srclist")
    old = open(stamp).read() if os.path.exists(stamp) else None
    if old != listing or not os.path.exists(mk):
        with open(stamp, "w") as f:
            f.write(listing)
        sh("coq_makefile -f _CoqProject %s -o Makefile.coq" % " ".join(srcs), cwd=COQ, check=True)


def coq_make(targets=None, timeout=1500):
    """Full .vo build of the given targets (paths relative to coq/), all by default."""
    os.makedirs(BUILD, exist_ok=True)
    sh("flock %s/coq.lock true" % BUILD)
    ensure_makefile()
    tgt = " ".join(targets) if targets else ""
    os.makedirs(BUILD, exist_ok=True)
    rc, out, dt = sh("flock %s/coq.lock timeout %d make -f Makefile.coq -j%d %s" % (BUILD, timeout, NCPU, tgt),
                     cwd=COQ, timeout=2 * timeout + 60)
    return rc, out, dt


def props_check(prop_id, timeout=900):
    """Build the cone of Props/<id>.v, then recompile Props/<id>.v itself to capture
    Print Assumptions.  Returns dict(ok, obligations, discharged, assumptions, log, failing)."""
    res = {"ok": False, "obligations": 0, "discharged": 0, "assumptions": {}, "log": "", "failing": None,
           "theorems": []}
    bad = grep_gate()
    if bad:
        res["log"] = "forbidden constructs: " + ", ".join(bad[:10])
        res["failing"] = "grep-gate:" + bad[0]
        return res
    vfile = "theories/Props/%s.v" % prop_id
    if not os.path.exists(os.path.join(COQ, vfile)):
        res["log"] = "no Props file"
        res["failing"] = "missing:" + vfile
        return res
    # cone of the Props file
    rc, out, dt = coq_make([vfile + "o"], timeout=timeout)
    res["log"] = out[-6000:]
    if rc != 0:
        m = re.search(r'File "([^"]+)", line (\d+)', out)
        res["failing"] = "proof-build:%s" % (("%s:%s" % (m.group(1), m.group(2))) if m else "make rc=%d" % rc)
        cone = cone_files(prop_id)
        res["obligations"] = count_obligations(cone)
        return res
    # force recompilation of the Props file for Print Assumptions
    rc, out, dt2 = sh("timeout 300 coqc -Q theories SZ -w -notation-overridden,-deprecated-hint-without-locality,-deprecated-syntactic-definition %s" % vfile,
                      cwd=COQ, timeout=330)
    res["log"] += "\n" + out[-6000:]
    if rc != 0:
        res["failing"] = "proof-build:%s" % vfile
        return res
    assumptions = parse_assumptions(out)
    res["assumptions"] = assumptions
    foreign = sorted({a for lst in assumptions.values() for a in lst if a not in ALLOWED_AXIOMS})
    cone = cone_files(prop_id)
    res["obligations"] = count_obligations(cone)
    res["theorems"] = theorem_names(os.path.join(COQ, vfile))
    if foreign:
        res["failing"] = "axioms:" + ",".join(foreign)
        return res
    res["discharged"] = res["obligations"]
    res["ok"] = True
    return res


def parse_assumptions(out):
    """Print Assumptions output blocks, in order.  Returns {index: [axiom names]}."""
    res = {}
    idx = 0
    lines = out.splitlines()
    i = 0
    while i < len(lines):
        ln = lines[i]
        if ln.startswith("Closed under the global context"):
            res[idx] = []
            idx += 1
        elif ln.startswith("Axioms:"):
            names = []
            i += 1
            while i < len(lines) and lines[i] and not lines[i].startswith(("Closed under", "Axioms:", "File ")):
                m = re.match(r"^([A-Za-z_][\w.']*)\s*:", lines[i])
                if m:
                    names.append(m.group(1))
                i += 1
            res[idx] = names
            idx += 1
            continue
        i += 1
    return res


def cone_files(prop_id):
    """Transitive SZ dependencies of Props/<id>.v (source paths)."""
    seen = set()
    todo = [os.path.join(COQ, "theories/Props/%s.v" % prop_id)]
    while todo:
        p = todo.pop()
        if p in seen or not os.path.exists(p):
            continue
        seen.add(p)
        txt = strip_comments(open(p).read())
        for m in re.finditer(r"From\s+SZ\s+Require\s+(?:Import|Export)?\s*((?:[A-Za-z_][\w]*(?:\.[A-Za-z_][\w]*)*\s*)+)\.(?=\s|$)", txt):
            for mod in m.group(1).split():
                todo.append(os.path.join(COQ, "theories", mod.replace(".", "/") + ".v"))
    return sorted(seen)


_OBL = re.compile(r"^\s*(Theorem|Lemma|Corollary|Proposition|Fact|Remark|Example)\s+([A-Za-z_][\w']*)", re.M)


def count_obligations(files):
    n = 0
    for p in files:
        txt = strip_comments(open(p).read())
        n += len(_OBL.findall(txt))
    return n


def theorem_names(path):
    txt = strip_comments(open(path).read())
    return [m[1] for m in _OBL.findall(txt)]


def run_case_files(paths, timeout=900):
    """Compile generated case files in parallel.  Each file must print, via
    `Eval vm_compute in (...)`, a term `= <list> : list nat`.  Returns {path: (rc, output)}."""
    if not paths:
        return {}
    lst = os.path.join(os.path.dirname(paths[0]), "files.lst")
    with open(lst, "w") as f:
        f.write("\n".join(paths) + "\n")
    cmd = ("cat %s | xargs -P%d -I{} sh -c 'timeout %d coqc -noglob -Q %s/theories SZ -w none {} > {}.out 2>&1; echo $? > {}.rc; rm -f {}o {}ok {}os'"
           % (lst, NCPU, timeout, COQ))
    sh(cmd, timeout=timeout * max(1, (len(paths) + NCPU - 1) // NCPU) + 60)
    res = {}
    for p in paths:
        rc = int(open(p + ".rc").read().strip() or 1) if os.path.exists(p + ".rc") else 1
        out = open(p + ".out").read() if os.path.exists(p + ".out") else ""
        res[p] = (rc, out)
        aux = os.path.join(os.path.dirname(p), "." + os.path.basename(p)[:-2] + ".aux")
        if os.path.exists(aux):
            os.remove(aux)
    return res


def parse_natlist(out):
    """parse '= [1; 5] : list nat' (possibly wrapped over lines); None if not found"""
    m = re.search(r"=\s*(\[[^\]]*\]|nil)\s*:\s*list\s+nat", out, re.S)
    if not m:
        return None
    body = m.group(1)
    if body == "nil":
        return []
    return [int(x) for x in re.findall(r"\d+", body)]


def scratch(prop_id):
    d = os.path.join(BUILD, "cases", prop_id)
    shutil.rmtree(d, ignore_errors=True)
    os.makedirs(d, exist_ok=True)
    return d


# ---------------------------------------------------------------------------
# known findings
# ---------------------------------------------------------------------------

def load_known():
    res = []
    p = os.path.join(VERIF, "known_findings.json")
    if os.path.exists(p):
        res.extend(json.load(open(p)))
    d = os.path.join(VERIF, "known_findings.d")
    if os.path.isdir(d):
        for f in sorted(os.listdir(d)):
            if f.endswith(".json"):
                res.extend(json.load(open(os.path.join(d, f))))
    return res


def known_signatures(prop_id):
    return {e["signature"]: e for e in load_known() if e["property"] == prop_id and e.get("status") == "known"}


# ---------------------------------------------------------------------------
# evidence + verdict
# ---------------------------------------------------------------------------
TRUSTED_BASE = [
    "Coq 8.16.1 kernel (coqc full .vo build, no -vos); vm_compute used for computed witnesses and for evaluating the model on correspondence cases; no native_compute",
    "axioms: none (every Props theorem prints 'Closed under the global context'); the check fails if Print Assumptions lists anything",
    "correspondence harness (python): case generators, drivers wrapping the public streamz API, trace canonicalisation and the Coq text encoder",
    "modelled, not verified: CPython, tornado/asyncio scheduling (observed at quiescent points of a stepped virtual-time loop), pandas, zict.LRU, confluent_kafka and dask (in-memory fakes), filesystem, GC timing, OS threads",
]


class Outcome:
    def __init__(self, prop_id, tier, seed):
        self.prop_id = prop_id
        self.tier = tier
        self.seed = seed
        self.t0 = time.time()
        self.violations = []      # (signature, what, replay_obj, no_input)
        self.known = []           # (signature, what)
        self.coverage = {}
        self.assumptions = []

    def violation(self, signature, what, replay_obj, no_input=False):
        self.violations.append((signature, what, replay_obj, no_input))

    def known_finding(self, signature, what):
        if signature not in [k[0] for k in self.known]:
            self.known.append((signature, what))

    def finish(self, proof, coverage, assumptions=None):
        """Write evidence, print verdict lines, return exit code."""
        cov = dict(coverage)
        cov.setdefault("obligations", proof.get("obligations", 0))
        cov.setdefault("discharged", proof.get("discharged", 0))
        cov.setdefault("checker_cmd", "make -f Makefile.coq theories/Props/%s.vo && coqc theories/Props/%s.v (Print Assumptions) in /verif/coq" % (self.prop_id, self.prop_id))
        cov.setdefault("trusted_base", TRUSTED_BASE)
        cov["theorems"] = proof.get("theorems", [])
        cov["print_assumptions"] = {str(k): v for k, v in proof.get("assumptions", {}).items()}
        ev = {
            "property_id": self.prop_id,
            "tier": self.tier,
            "seed": self.seed,
            "level": "proof",
            "coverage": cov,
            "assumptions": (assumptions or []) + TRUSTED_BASE,
            "wall_s": round(time.time() - self.t0, 2),
            "violations": len(self.violations),
            "known_findings": [k[0] for k in self.known],
        }
        os.makedirs(EVID, exist_ok=True)
        with open(os.path.join(EVID, "%s.json" % self.prop_id), "w") as f:
            json.dump(ev, f, indent=1, default=str)
        for sig, what in self.known:
            print("KNOWN-FINDING: property=%s %s [%s]" % (self.prop_id, what, sig))
        rc = 0
        if self.violations:
            os.makedirs(os.path.join(BUILD, "replays"), exist_ok=True)
            seen = set()
            for k, (sig, what, replay, no_input) in enumerate(self.violations):
                if sig in seen:
                    continue
                seen.add(sig)
                path = os.path.join(BUILD, "replays", "%s_%d.json" % (self.prop_id, len(seen)))
                with open(path, "w") as f:
                    json.dump({"property": self.prop_id, "signature": sig, "what": what, "seed": self.seed,
                               "tier": self.tier, "replay": replay}, f, indent=1, default=str)
                print("# %s: %s" % (sig, what))
                print("VIOLATION property=%s replay=%s%s" % (self.prop_id, path, " no-failing-input-found" if no_input else ""))
            rc = 1
        sys.stdout.flush()
        return rc


def tier_from_env(default="quick"):
    return os.environ.get("VERIF_TIER", default)


def seed_from_env():
    try:
        return int(os.environ.get("VERIF_SEED", "0"))
    except ValueError:
        return 0
