"""C12: checkpoint / resume of streaming aggregation state, driven through the REAL public API.

case = {"pipe": id, "rows": [[x, y, k]...], "sizes": [...], "ex": "row" | "empty"}   (time index: one row per second;
       "ex" = the `example` frame given to the streaming DataFrame: one row stamped at second 0, or no rows)
For every cut k (1 <= k < number of batches) at which the uninterrupted run exposed a state:
   fresh Stream + DataFrame, the same aggregation built with start=<copy of the state emitted after batch k>,
   remaining batches fed, (state, result) pairs compared EXACTLY with the uninterrupted run's suffix.
Also checked: building the resumed pipeline does not alter the start state; later batches of the uninterrupted
run do not alter a state it has already emitted.

How the state is exposed (`expose`):
  "with_state" : public with_state=True, the stream emits (state, result)
  "value"      : no with_state in the API (Frame.sum/count, GroupBy.sum/count): the emitted value IS the state
  "node"       : no with_state in the API and state != value (Frame.mean): state read from the accumulate
                 node's `.state` attribute (instrumentation, said so in the evidence)
"""
import copy
import logging
import warnings
from collections import OrderedDict, deque

import numpy as np
import pandas as pd

logging.disable(logging.CRITICAL)

import df_common as dfc

XY = ["x", "y"]
PIPES = OrderedDict()


def _reg(pid, expose, build, c06=None, group="reduction"):
    PIPES[pid] = {"expose": expose, "build": build, "c06": c06, "group": group}


# ---- reductions: start= only
_reg("s.sum", "value", lambda d, st: d.x.sum(start=st), "s.sum")
_reg("s.count", "value", lambda d, st: d.x.count(start=st), "s.count")
_reg("d.sum", "value", lambda d, st: d[XY].sum(start=st), "d.sum")
_reg("d.count", "value", lambda d, st: d[XY].count(start=st), "d.count")
_reg("s.mean", "node", lambda d, st: d.x.mean(start=st), "s.mean")
_reg("d.mean", "node", lambda d, st: d[XY].mean(start=st), "d.mean")
# ---- groupby
_reg("gc.x.sum", "value", lambda d, st: d.groupby("k").x.sum(start=st), "gc.x.sum", "groupby")
_reg("gc.x.count", "value", lambda d, st: d.groupby("k").x.count(start=st), "gc.x.count", "groupby")
_reg("gs.x.sum", "value", lambda d, st: d.groupby(d.k).x.sum(start=st), "gs.x.sum", "groupby")
_reg("gc.xy.sum", "value", lambda d, st: d.groupby("k")[XY].sum(start=st), "gc.xy.sum", "groupby")
_reg("gc.x.mean", "with_state", lambda d, st: d.groupby("k").x.mean(with_state=True, start=st), "gc.x.mean", "groupby")
_reg("gs.x.mean", "with_state", lambda d, st: d.groupby(d.k).x.mean(with_state=True, start=st), "gs.x.mean", "groupby")
_reg("gc.xy.mean", "with_state", lambda d, st: d.groupby("k")[XY].mean(with_state=True, start=st), "gc.xy.mean", "groupby")
# ---- expanding
_reg("es.sum", "with_state", lambda d, st: d.expanding(with_state=True, start=st).x.sum(), "es.sum", "expanding")
_reg("es.count", "with_state", lambda d, st: d.expanding(with_state=True, start=st).x.count(), "es.count", "expanding")
_reg("es.mean", "with_state", lambda d, st: d.expanding(with_state=True, start=st).x.mean(), "es.mean", "expanding")
_reg("es.var1", "with_state", lambda d, st: d.expanding(with_state=True, start=st).x.var(), "es.var1", "expanding")
_reg("ed.mean", "with_state", lambda d, st: d.expanding(with_state=True, start=st)[XY].mean(), "ed.mean", "expanding")
_reg("ed.var1", "with_state", lambda d, st: d.expanding(with_state=True, start=st)[XY].var(), "ed.var1", "expanding")
# ---- rolling (implementation level only)
for w, tag in ((2, "2"), (3, "3"), ("2s", "2s")):
    _reg("roll%s.x.sum" % tag, "with_state", lambda d, st, w=w: d.rolling(w, with_state=True, start=() if st is None else st).x.sum(), None, "rolling")
    _reg("roll%s.x.mean" % tag, "with_state", lambda d, st, w=w: d.rolling(w, with_state=True, start=() if st is None else st).x.mean(), None, "rolling")
_reg("roll2.xy.max", "with_state", lambda d, st: d.rolling(2, with_state=True, start=() if st is None else st)[XY].max(), None, "rolling")
_reg("roll3.x.std", "with_state", lambda d, st: d.rolling(3, with_state=True, start=() if st is None else st).x.std(), None, "rolling")
# ---- fixed-size windows
for n in (1, 2, 3):
    _reg("win%d.x.sum" % n, "with_state", lambda d, st, n=n: d.window(n=n, with_state=True, start=st).x.sum(), None, "window-n")
_reg("win2.x.mean", "with_state", lambda d, st: d.window(n=2, with_state=True, start=st).x.mean(), None, "window-n")
_reg("win3.x.count", "with_state", lambda d, st: d.window(n=3, with_state=True, start=st).x.count(), None, "window-n")
_reg("win3.x.var", "with_state", lambda d, st: d.window(n=3, with_state=True, start=st).x.var(), None, "window-n")
_reg("win2.x.size", "with_state", lambda d, st: d.window(n=2, with_state=True, start=st).x.size, None, "window-n")
_reg("win3.k.value_counts", "with_state", lambda d, st: d.window(n=3, with_state=True, start=st).k.value_counts(), None, "window-n")
_reg("win2.xy.sum", "with_state", lambda d, st: d.window(n=2, with_state=True, start=st)[XY].sum(), None, "window-n")
_reg("win3.x.std", "with_state", lambda d, st: d.window(n=3, with_state=True, start=st).x.std(), None, "window-n")
_reg("es.std1", "with_state", lambda d, st: d.expanding(with_state=True, start=st).x.std(), None, "expanding")
# ---- time windows
_reg("wint2.x.sum", "with_state", lambda d, st: d.window(value="2s", with_state=True, start=st).x.sum(), None, "window-time")
_reg("wint3.x.mean", "with_state", lambda d, st: d.window(value="3s", with_state=True, start=st).x.mean(), None, "window-time")
_reg("wint2.xy.count", "with_state", lambda d, st: d.window(value="2s", with_state=True, start=st)[XY].count(), None, "window-time")
# ---- windowed groupby
_reg("wg3.x.sum", "with_state", lambda d, st: d.window(n=3, with_state=True, start=st).groupby("k").x.sum(), None, "windowed-groupby")
_reg("wg2.x.mean", "with_state", lambda d, st: d.window(n=2, with_state=True, start=st).groupby("k").x.mean(), None, "windowed-groupby")
_reg("wg3.x.count", "with_state", lambda d, st: d.window(n=3, with_state=True, start=st).groupby("k").x.count(), None, "windowed-groupby")
_reg("wgt2.x.sum", "with_state", lambda d, st: d.window(value="2s", with_state=True, start=st).groupby("k").x.sum(), None, "windowed-groupby")


def _wgs(d, st):
    w = d.window(n=3, with_state=True, start=st)
    return w.groupby(w.k).x.sum()


_reg("wgs3.x.sum", "with_state", _wgs, None, "windowed-groupby")
# ---- exponentially weighted mean
_reg("ewm1.x.mean", "with_state", lambda d, st: d.ewm(com=1, with_state=True, start=st).x.mean(), None, "ewm")
_reg("ewm.5.xy.mean", "with_state", lambda d, st: d.ewm(alpha=0.5, with_state=True, start=st)[XY].mean(), None, "ewm")

PIPE_IDS = list(PIPES)


# ---------------------------------------------------------------------------
# exact comparison of arbitrary states / results
# ---------------------------------------------------------------------------

def same(a, b):
    if isinstance(a, (tuple, list, deque)) and isinstance(b, (tuple, list, deque)):
        return len(a) == len(b) and all(same(x, y) for x, y in zip(a, b))
    if isinstance(a, dict) and isinstance(b, dict):
        return set(a) == set(b) and all(same(a[k], b[k]) for k in a)
    if isinstance(a, pd.DataFrame) and isinstance(b, pd.DataFrame):
        try:
            pd.testing.assert_frame_equal(a, b, check_exact=True)
            return True
        except AssertionError:
            return False
    if isinstance(a, pd.Series) and isinstance(b, pd.Series):
        try:
            pd.testing.assert_series_equal(a, b, check_exact=True)
            return True
        except AssertionError:
            return False
    if isinstance(a, pd.Index) and isinstance(b, pd.Index):
        return a.equals(b)
    if isinstance(a, (pd.DataFrame, pd.Series, pd.Index, tuple, list, deque, dict)) or \
            isinstance(b, (pd.DataFrame, pd.Series, pd.Index, tuple, list, deque, dict)):
        return False
    if a is None or b is None:
        return a is None and b is None
    try:
        fa, fb = float(a), float(b)
        if np.isnan(fa) and np.isnan(fb):
            return True
        return fa == fb
    except (TypeError, ValueError):
        return a == b


def show(v, n=160):
    return repr(v).replace("\n", " | ")[:n]


# ---------------------------------------------------------------------------
# driver
# ---------------------------------------------------------------------------

def _acc_node(stream):
    from streamz.core import accumulate
    n = stream
    while not isinstance(n, accumulate):
        n = n.upstreams[0]
    return n


def _run(pipe, start, batches, ex="row"):
    """-> list per batch of ("ok", state_copy, state_ref, result) | ("exc", name)"""
    from streamz import Stream
    from streamz.dataframe import DataFrame
    p = PIPES[pipe]
    src = Stream()
    sdf = DataFrame(src, example=dfc.example_df("float", ex, index="time"))
    out = p["build"](sdf, start)
    node = _acc_node(out.stream)
    L = out.stream.sink_to_list()
    res = []
    for b in batches:
        n0 = len(L)
        try:
            src.emit(b)
        except Exception as e:      # noqa: BLE001
            res.append(("exc", type(e).__name__))
            continue
        if len(L) != n0 + 1:
            res.append(("exc", "emissions=%d" % (len(L) - n0)))
            continue
        v = L[-1]
        if p["expose"] == "with_state":
            if not (isinstance(v, tuple) and len(v) == 2):
                res.append(("exc", "with_state-did-not-emit-a-pair"))
                continue
            st, r = v
        elif p["expose"] == "value":
            st, r = v, v
        else:
            st, r = node.state, v
        res.append(("ok", copy.deepcopy(st), st, r))
    return res


def check(case):
    """-> {"findings": [(sig, msg, cut)], "cuts": n, "obs": ..., "resumed": {k: ...}}"""
    pipe = case["pipe"]
    grp = PIPES[pipe]["group"]
    out = {"findings": [], "cuts": 0, "full": None, "resumed": {}, "crash": None}
    with warnings.catch_warnings():
        warnings.simplefilter("ignore")
        batches = dfc.batches_of(case["rows"], case["sizes"], "float", index="time")
        if case.get("boff"):
            # late batches: batch b is stamped `boff[b]` seconds off its position (a negative offset makes its rows OLDER
            # than rows that arrived before it, possibly still inside the time window)
            batches = [dfc.make_df(rs, start=pos + off, dtype="float", index="time")
                       for (pos, rs), off in zip(dfc.split_rows(case["rows"], case["sizes"]), case["boff"])]
        try:
            full = _run(pipe, None, batches, case.get("ex", "row"))
        except Exception as e:      # noqa: BLE001
            out["findings"].append(("C12/%s/construction-raises/%s" % (grp, type(e).__name__),
                                    "%s: building the pipeline with start=None raised %r" % (pipe, e), 0))
            return out
        out["full"] = full
        # (0) asking for the state must not break the aggregation itself
        seen = 0
        for k, (rec, b) in enumerate(zip(full, batches)):
            seen += len(b)
            if rec[0] == "exc" and seen > 0:
                out["findings"].append(("C12/%s/with-state-run-raises/%s/%s" % (grp, pipe.split(".")[-1].rstrip("01"), rec[1]),
                                        "%s: with the state exposed, the emit of batch %d (non-empty prefix) failed: %s" % (pipe, k + 1, rec[1]), k + 1))
                break
        # (a) later batches must not alter a state already emitted
        for k, rec in enumerate(full):
            if rec[0] == "ok" and not same(rec[1], rec[2]):
                out["findings"].append(("C12/%s/emitted-state-mutated-later" % grp,
                                        "%s: the state emitted after batch %d was modified in place by later batches" % (pipe, k + 1), k + 1))
                break
        for k in range(1, len(batches)):
            rec = full[k - 1]
            if rec[0] != "ok":
                continue
            out["cuts"] += 1
            start = copy.deepcopy(rec[1])
            pristine = copy.deepcopy(rec[1])
            try:
                resumed = _run(pipe, start, batches[k:], case.get("ex", "row"))
            except Exception as e:      # noqa: BLE001
                out["findings"].append(("C12/%s/resume-construction-raises/%s" % (grp, type(e).__name__),
                                        "%s: building the pipeline with start=<state after batch %d> raised %r; state %s"
                                        % (pipe, k, e, show(rec[1])), k))
                continue
            out["resumed"][k] = resumed
            for j, (a, b) in enumerate(zip(resumed, full[k:])):
                if a[0] != b[0]:
                    out["findings"].append(("C12/%s/resumed-differs/raise" % grp,
                                            "%s cut after batch %d: batch %d %s when resumed, %s uninterrupted" % (pipe, k, k + j + 1, a[:2], b[:2]), k))
                    break
                if a[0] == "exc":
                    continue
                if not same(a[3], b[3]):
                    out["findings"].append(("C12/%s/resumed-differs/result" % grp,
                                            "%s cut after batch %d: result for batch %d is %s when resumed from the emitted state, %s uninterrupted"
                                            % (pipe, k, k + j + 1, show(a[3]), show(b[3])), k))
                    break
                if not same(a[1], b[1]):
                    out["findings"].append(("C12/%s/resumed-differs/state" % grp,
                                            "%s cut after batch %d: state after batch %d is %s when resumed, %s uninterrupted"
                                            % (pipe, k, k + j + 1, show(a[1]), show(b[1])), k))
                    break
            # (b) building / running the resumed pipeline must not alter the checkpoint it was given
            if not same(start, pristine):
                out["findings"].append(("C12/%s/start-state-mutated" % grp,
                                        "%s: the start state given to the resumed pipeline (cut %d) was modified in place" % (pipe, k), k))
    return out


def check_light(case):
    """worker entry for the pool: run check() and return only picklable, small data"""
    try:
        r = check(case)
    except Exception as e:      # noqa: BLE001
        return {"crash": "%s: %s" % (type(e).__name__, e), "findings": [], "cuts": 0, "coq": None}
    coq = None
    c06 = PIPES[case["pipe"]]["c06"]
    if c06 is not None and r["full"] is not None:
        def can(recs):
            o = []
            for rec in recs:
                if rec[0] != "ok":
                    o.append({"exc": rec[1], "val": None, "state": None})
                else:
                    try:
                        o.append({"exc": None, "val": dfc.canon(rec[3]), "state": dfc.canon(rec[1])})
                    except TypeError as e:
                        o.append({"exc": "canon:%s" % e, "val": None, "state": None})
            return o
        coq = {"full": can(r["full"]), "resumed": {k: can(v) for k, v in r["resumed"].items()}}
    return {"crash": None, "findings": r["findings"], "cuts": r["cuts"], "coq": coq}
