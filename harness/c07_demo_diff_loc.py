# window(value=T) must aggregate the rows with index in (newest - T, newest]; run with PYTHONPATH=<streamz tree>
import pandas as pd
from streamz import Stream
from streamz.dataframe import DataFrame
ns = lambda *t: pd.DatetimeIndex([pd.Timestamp(x) for x in t])          # integer nanoseconds
b1 = pd.DataFrame({'x': [1.0, 2.0]}, index=ns(0, 1))
b2 = pd.DataFrame({'x': [4.0]}, index=ns(3))
source = Stream()
sdf = DataFrame(source, example=b1.iloc[:1])
L = sdf.window(value=pd.Timedelta(3, 'ns')).x.sum().stream.sink_to_list()
source.emit(b1); source.emit(b2)
full = pd.concat([b1, b2])
expected = full.x[full.index > full.index.max() - pd.Timedelta(3, 'ns')].sum()   # rows at 1ns and 3ns -> 6.0
print("emitted", L[-1], "expected", expected)
assert L[-1] == expected, "row stamped newest - T + 1ns was decayed with the older row of its batch"
