"""Behaviour-preserving normalisation of a python function before it is translated (used by gen_nodes.py and gen_emit.py).

The translators are fail-closed: a source shape they do not know is an alarm.  Two ways of writing the same thing should
therefore reach them as ONE shape.  Every rewrite here is a python-level identity whose side conditions are checked
syntactically on the function at hand; when a condition does not hold the code is left as it is (and the translator decides).

  loop -> comprehension     L = []                               L = [e for v in it if c]
                            for v in it:                  ==>
                                [if c:] L.append(e)
      conditions: L is a plain local, bound to a fresh empty list immediately before the loop; the loop body is exactly
      the (optionally guarded) append; neither `it`, `e` nor `c` mentions L; the loop variable v is not read after the
      loop (a comprehension does not leak it) except where it is bound again.  Then both forms evaluate `it` once, `e`
      (and `c`) once per element in the same order, raise at the same element, and leave the same list in L - the
      partially filled list of a loop that raised is a local nobody else can see.

  guard-continue -> if     for v in it:                          for v in it:
                               A                                     A
                               if c: continue             ==>        if not c:
                               B                                         B
      at the top level of a loop body (`not c` tests the truth of c exactly as `if c` does); a `continue` that ends the
      loop body is dropped.  With statements before the `continue`:
                           for v in it:                          for v in it:
                               A                                     A
                               if c:                      ==>        if c:
                                   C                                     C
                                   continue                          else:
                               B                                         B

  return of a conditional   return (a if c else b)        ==>    if c: return a
  expression                                                      else: return b
      the test first, then only the chosen arm, then the return - in both forms.
"""
import ast
import copy


def _mentions(node, name):
    return any(isinstance(n, ast.Name) and n.id == name for n in ast.walk(node))


def _append_of(stmt, name):
    """`<name>.append(e)` as a statement -> e"""
    if isinstance(stmt, ast.Expr) and isinstance(stmt.value, ast.Call) and isinstance(stmt.value.func, ast.Attribute) \
            and stmt.value.func.attr == "append" and isinstance(stmt.value.func.value, ast.Name) \
            and stmt.value.func.value.id == name and len(stmt.value.args) == 1 and not stmt.value.keywords \
            and not isinstance(stmt.value.args[0], ast.Starred):
        return stmt.value.args[0]
    return None


def _binds(node, var):
    """does this node bind `var` itself before reading it (a loop / comprehension over it)?"""
    if isinstance(node, ast.For) and isinstance(node.target, ast.Name) and node.target.id == var:
        return not _mentions(node.iter, var)
    if isinstance(node, (ast.ListComp, ast.SetComp, ast.GeneratorExp, ast.DictComp)):
        g = node.generators[0]
        return isinstance(g.target, ast.Name) and g.target.id == var and not _mentions(g.iter, var)
    return False


def _read_after(fn, loop, var):
    """is `var` read after `loop` (in source order) other than under a construct that binds it again?"""
    end = (loop.end_lineno, loop.end_col_offset)

    def visit(node):
        if _binds(node, var) and (node.lineno, node.col_offset) >= end:
            return False
        if isinstance(node, ast.Name) and node.id == var and isinstance(node.ctx, ast.Load) \
                and (node.lineno, node.col_offset) >= end:
            return True
        return any(visit(c) for c in ast.iter_child_nodes(node))
    return visit(fn)


def _loop_as_comprehension(init, loop, fn):
    if not (isinstance(init, ast.Assign) and len(init.targets) == 1 and isinstance(init.targets[0], ast.Name)
            and isinstance(init.value, ast.List) and not init.value.elts):
        return None
    name = init.targets[0].id
    if not (isinstance(loop, ast.For) and not loop.orelse and isinstance(loop.target, ast.Name) and len(loop.body) == 1
            and loop.target.id != name):
        return None
    inner, conds = loop.body[0], []
    if isinstance(inner, ast.If) and not inner.orelse and len(inner.body) == 1:
        conds, inner = [inner.test], inner.body[0]
    elt = _append_of(inner, name)
    if elt is None or any(_mentions(n, name) for n in [loop.iter, elt] + conds):
        return None
    if any(isinstance(n, (ast.Yield, ast.YieldFrom, ast.Await, ast.NamedExpr)) for m in [loop.iter, elt] + conds for n in ast.walk(m)):
        return None
    if _read_after(fn, loop, loop.target.id):
        return None
    comp = ast.ListComp(elt=elt, generators=[ast.comprehension(target=loop.target, iter=loop.iter, ifs=conds, is_async=0)])
    new = ast.Assign(targets=[init.targets[0]], value=comp, type_comment=None)
    ast.copy_location(comp, loop)
    ast.copy_location(new, loop)
    return ast.fix_missing_locations(new)


def _guard_continue(body):
    """top level of a loop body"""
    body = list(body)
    while body and isinstance(body[-1], ast.Continue) and len(body) > 1:
        body.pop()
    for i, s in enumerate(body):
        if isinstance(s, ast.If) and not s.orelse and len(s.body) == 1 and isinstance(s.body[0], ast.Continue):
            rest = _guard_continue(body[i + 1:])
            if not rest:
                rest = [ast.copy_location(ast.Pass(), s)]
            test = ast.copy_location(ast.UnaryOp(op=ast.Not(), operand=s.test), s.test)
            new = ast.copy_location(ast.If(test=test, body=rest, orelse=[]), s)
            return body[:i] + [ast.fix_missing_locations(new)]
        if isinstance(s, ast.If) and not s.orelse and len(s.body) > 1 and isinstance(s.body[-1], ast.Continue) \
                and not any(isinstance(n, (ast.Continue, ast.Break)) for c in s.body[:-1] for n in ast.walk(c)):
            # if c: C; continue   followed by B   ==>   if c: C else: B
            rest = _guard_continue(body[i + 1:])
            if not rest:
                rest = [ast.copy_location(ast.Pass(), s)]
            new = ast.copy_location(ast.If(test=s.test, body=list(s.body[:-1]), orelse=rest), s)
            return body[:i] + [ast.fix_missing_locations(new)]
    return body


def _return_ifexp(s):
    if isinstance(s, ast.Return) and isinstance(s.value, ast.IfExp):
        e = s.value
        a = _return_ifexp(ast.copy_location(ast.Return(value=e.body), s))
        b = _return_ifexp(ast.copy_location(ast.Return(value=e.orelse), s))
        return ast.fix_missing_locations(ast.copy_location(ast.If(test=e.test, body=[a], orelse=[b]), s))
    return s


def _block(stmts, fn):
    out = []
    for s in stmts:
        s = _return_ifexp(s)
        if isinstance(s, (ast.For, ast.While)):
            s.body = _guard_continue(s.body)
        for field in ("body", "orelse", "finalbody"):
            if isinstance(getattr(s, field, None), list) and not isinstance(s, (ast.FunctionDef, ast.AsyncFunctionDef, ast.ClassDef)):
                setattr(s, field, _block(getattr(s, field), fn))
        if isinstance(s, ast.Try):
            for h in s.handlers:
                h.body = _block(h.body, fn)
        if isinstance(s, (ast.FunctionDef, ast.AsyncFunctionDef)):
            s.body = _block(s.body, s)
        new = _loop_as_comprehension(out[-1], s, fn) if out else None
        if new is not None:
            out[-1] = new
        else:
            out.append(s)
    return out


def normalize(fn):
    """-> a normalised deep copy of the FunctionDef (line numbers kept for messages)"""
    fn = copy.deepcopy(fn)
    fn.body = _block(fn.body, fn)
    return fn
