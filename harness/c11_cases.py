"""C11 case generation, evaluation (implementation + oracle), signatures, shrinking, Coq encoding."""
import json
import logging
import os
import sys
from fractions import Fraction

sys.path.insert(0, os.path.dirname(os.path.abspath(__file__)))
import dfw_common as D

SIG_CUM = "C11/cumulative/batch-ending-with-NaN-loses-running-value"
SIG_EWM_EMPTY = "C11/ewm/empty-first-batch-empties-all-results"
SIG_EWM_NAN = "C11/ewm/NaN-cell-propagates-forever"
SIG_EXP_NAN = "C11/expanding/sum/all-NaN-prefix-gives-0"

MODEL_ROPS = {"sum": "RSum", "mean": "RMean", "min": "RMin", "max": "RMax", "count": "RCount"}
MODEL_CUM = {"cumsum": "CSum", "cumprod": "CProd", "cummin": "CMin", "cummax": "CMax"}
MODEL_EXP = {"sum": "ASum", "count": "ACount", "size": "ASize", "mean": "AMean", "var": "(AVar 1)", "var0": "(AVar 0)"}

TABLES = [
    [[0, 0, 1], [1, 1, 2], [3, 0, 4], [3, 1, 3], [4, 2, 5]],          # duplicate stamp, gap
    [[0, 0, 1], [2, 1, None], [2, 0, 3], [5, 1, 2], [6, 0, 5]],       # NaN in the middle
    [[0, 0, 2], [1, 0, -1], [2, 0, 3], [4, 0, None], [5, 0, 1]],      # negative value, NaN late
]
TABLE6 = [[0, 0, 3], [1, 1, 1], [1, 0, 4], [3, 2, 1], [4, 1, 5], [6, 0, 2]]
TABLE_NAN_FIRST = [[0, 0, None], [1, 0, 2], [2, 0, 3]]


def size_lists(n, empties=True):
    out = []
    for parts in D.compositions(n):
        out.append(list(parts))
        if empties:
            out.append([0] + parts)
            out.append(parts[:len(parts) // 2 + 1] + [0] + parts[len(parts) // 2 + 1:])
            out.append(parts + [0])
    return out


def quick_cases():
    import c11_impl as I
    cases = []
    for rows in TABLES:
        for sizes in size_lists(len(rows)):
            for w in (1, 2, 3, 5):
                for op in I.ROLL_OPS:
                    cases.append(dict(fam="roll", op=op, w=w, rows=rows, sizes=sizes))
                    cases.append(dict(fam="troll", op=op, w=w, rows=rows, sizes=sizes))
            for op in I.CUM_OPS:
                cases.append(dict(fam="cum", op=op, w=0, rows=rows, sizes=sizes))
            for op in I.EXP_OPS:
                cases.append(dict(fam="exp", op=op, w=0, rows=rows, sizes=sizes))
            for w in (0, 1, 3):
                cases.append(dict(fam="ewm", op="mean", w=w, rows=rows, sizes=sizes))
    for sizes in size_lists(6, empties=False):
        for w in (2, 4):
            for op in ("sum", "mean", "max"):
                cases.append(dict(fam="roll", op=op, w=w, rows=TABLE6, sizes=sizes))
                cases.append(dict(fam="troll", op=op, w=w, rows=TABLE6, sizes=sizes))
        cases.append(dict(fam="cum", op="cumsum", w=0, rows=TABLE6, sizes=sizes))
        cases.append(dict(fam="cum", op="cummax", w=0, rows=TABLE6, sizes=sizes))
        cases.append(dict(fam="ewm", op="mean", w=2, rows=TABLE6, sizes=sizes))
    for sizes in size_lists(3):
        for op in I.CUM_OPS:
            cases.append(dict(fam="cum", op=op, w=0, rows=TABLE_NAN_FIRST, sizes=sizes))
        for op in I.EXP_OPS:
            cases.append(dict(fam="exp", op=op, w=0, rows=TABLE_NAN_FIRST, sizes=sizes))
    for fam, ops, w in (("roll", I.ROLL_OPS, 2), ("troll", I.ROLL_OPS, 2), ("cum", I.CUM_OPS, 0), ("exp", I.EXP_OPS, 0), ("ewm", ["mean"], 1)):
        for op in ops:
            cases.append(dict(fam=fam, op=op, w=w, rows=[], sizes=[0, 0]))
    return cases


def random_case(rng, big):
    import c11_impl as I
    n = rng.randint(0, 16 if big else 8)
    rows, t = [], rng.randint(0, 3)
    for _ in range(n):
        t += rng.choice([0, 0, 1, 1, 1, 2, 3, 5])
        rows.append([t, 0, None if rng.random() < 0.08 else rng.randint(-3, 6)])
    sizes, left = [], n
    while left > 0:
        if rng.random() < 0.15:
            sizes.append(0)
            continue
        s = rng.randint(1, min(left, 6))
        sizes.append(s)
        left -= s
    while rng.random() < 0.25:
        sizes.insert(rng.randint(0, len(sizes)), 0)
    if not sizes:
        sizes = [0]
    fam = rng.choice(["roll", "roll", "troll", "troll", "cum", "ewm", "exp"])
    if fam in ("roll", "troll"):
        return dict(fam=fam, op=rng.choice(I.ROLL_OPS), w=rng.choice([1, 2, 3, 4, 7]), rows=rows, sizes=sizes)
    if fam == "cum":
        return dict(fam=fam, op=rng.choice(I.CUM_OPS), w=0, rows=rows, sizes=sizes)
    if fam == "exp":
        return dict(fam=fam, op=rng.choice(I.EXP_OPS), w=0, rows=rows, sizes=sizes)
    return dict(fam="ewm", op="mean", w=rng.choice([0, 1, 2, 5]), rows=rows, sizes=sizes)


def evaluate(case):
    import c11_impl as I
    logging.disable(logging.CRITICAL)
    try:
        got = I.run_impl_steps(case)
    except Exception as e:
        return dict(got=None, exp=None, fail=(0, "construction:" + type(e).__name__),
                    sig="C11/construction/%s/%s/%s" % (case["fam"], case["op"], type(e).__name__), err=repr(e)[:300])
    exp = I.run_oracle(case)
    fail = I.compare(case, got, exp)
    return dict(got=got, exp=exp, fail=fail, sig=classify(case, fail) if fail else None)


def classify(case, fail):
    i, fk = fail
    bs = D.batches_of(case["rows"], case["sizes"])
    pre = case["rows"][:sum(case["sizes"][:i + 1])]
    if case["fam"] == "cum" and any(b and b[-1][2] is None for b in bs[:i]):
        return SIG_CUM
    if case["fam"] == "ewm":
        if any(r[2] is None for r in pre):
            return SIG_EWM_NAN
        if case["sizes"][0] == 0:
            return SIG_EWM_EMPTY
    if case["fam"] == "exp" and case["op"] == "sum" and pre and all(r[2] is None for r in pre):
        return SIG_EXP_NAN
    return "C11/%s/%s/%s" % (case["fam"], case["op"], fk)


def shrink(case, sig):
    def fails(c):
        try:
            return evaluate(c)["sig"] == sig
        except Exception:
            return False
    cur = json.loads(json.dumps(case))
    changed = True
    while changed:
        changed = False
        pos = 0
        for bi in range(len(cur["sizes"])):
            for j in range(cur["sizes"][bi]):
                c2 = json.loads(json.dumps(cur))
                del c2["rows"][pos + j]
                c2["sizes"][bi] -= 1
                if fails(c2):
                    cur, changed = c2, True
                    break
            if changed:
                break
            pos += cur["sizes"][bi]
        if changed:
            continue
        for bi in range(len(cur["sizes"]) - 1):
            c2 = json.loads(json.dumps(cur))
            c2["sizes"][bi:bi + 2] = [c2["sizes"][bi] + c2["sizes"][bi + 1]]
            if fails(c2):
                cur, changed = c2, True
                break
    return cur


# ------------------------------------------------------------------------------------------------
COQ_HEADER = """From Coq Require Import List ZArith QArith Qcanon Bool.
From SZ Require Import DF.Window DF.Rolling.
Import ListNotations.
Definition q (n : Z) (d : positive) : Qc := Q2Qc (Qmake n d).
Definition R (s k : Z) (v : option Qc) := mkRow s k v.
"""


def in_model(case):
    f, op = case["fam"], case["op"]
    if f in ("roll", "troll"):
        return op in MODEL_ROPS
    if f == "cum":
        return True
    if f == "exp":
        return op in MODEL_EXP
    if f == "ewm":
        return not any(r[2] is None for r in case["rows"])
    return False


def coq_onum(v):
    if v is None:
        return "ONan"
    if isinstance(v, str):
        return "OInf"
    fr = Fraction(v)
    return "(ONum (q (%d) %d))" % (fr.numerator, fr.denominator)


def coq_res(c):
    if c[0] == "exc":
        return "RExc"
    if c[0] == "s":
        return "(RScal %s)" % coq_onum(c[1])
    return "(RList [%s])" % "; ".join(coq_onum(v) for v in c[1])


def coq_row(r):
    v = "None" if r[2] is None else "(Some (q (%d) 1))" % r[2]
    return "(R (%d) (%d) %s)" % (r[0], r[1], v)


def coq_case(name, case, got):
    f, op, w = case["fam"], case["op"], case["w"]
    if f == "roll":
        fam = "(FRoll %d %s)" % (w, MODEL_ROPS[op])
    elif f == "troll":
        fam = "(FTroll (%d)%%Z %s)" % (w, MODEL_ROPS[op])
    elif f == "cum":
        fam = "(FCum %s)" % MODEL_CUM[op]
    elif f == "ewm":
        fam = "(FEwm (q (%d) 1))" % w
    else:
        fam = "(FExp %s)" % MODEL_EXP[op]
    bs = "[" + "; ".join("[" + "; ".join(coq_row(r) for r in b) + "]" for b in D.batches_of(case["rows"], case["sizes"])) + "]"
    obs = "[" + "; ".join(coq_res(c) for c in got) + "]"
    return "Definition %s := mkRCase %s %s %s.\n" % (name, fam, bs, obs)
