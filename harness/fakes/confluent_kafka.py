"""In-memory fake of the part of the confluent_kafka API that streamz uses (harness only).

Installed by putting this directory first on sys.path (see c09_impl.install_fake).  One module-level BROKER:
  * per (topic, partition) log: `base` (low watermark = offset of the first retained message) + list of values,
    offsets are base, base+1, ...; the high watermark is base + len(values);
  * per (group, topic, partition) committed offset (absent = OFFSET_INVALID = -1001);
  * `calls`: append-only log of what clients did: ("commit", group, partition, offset),
    ("assign", partition, offset), ("consumer", group), ("close",).
What is NOT faked: rebalancing, asynchronous commit failure, network errors, message errors, timeouts.
`Consumer.poll` never blocks and never sleeps.
"""

OFFSET_INVALID = -1001
OFFSET_BEGINNING = -2
OFFSET_END = -1


class KafkaException(Exception):
    pass


class KafkaError(Exception):
    pass


class TopicPartition(object):
    def __init__(self, topic, partition=-1, offset=OFFSET_INVALID):
        self.topic = topic
        self.partition = partition
        self.offset = offset
        self.error = None

    def __repr__(self):
        return "TopicPartition{topic=%s,partition=%s,offset=%s}" % (self.topic, self.partition, self.offset)


class Broker(object):
    def __init__(self):
        self.reset()

    def reset(self):
        self.base = {}        # (topic, part) -> low watermark
        self.logs = {}        # (topic, part) -> list of (key, value)
        self.committed = {}   # (group, topic, part) -> offset
        self.calls = []

    # ---- administration / production (used by the harness) ----
    def add_partition(self, topic, base=0):
        n = self.npartitions(topic)
        self.base[(topic, n)] = base
        self.logs[(topic, n)] = []
        return n

    def npartitions(self, topic):
        return len([k for k in self.logs if k[0] == topic])

    def produce(self, topic, part, value, key=None):
        if (topic, part) not in self.logs:
            raise KafkaException("unknown partition %r" % ((topic, part),))
        self.logs[(topic, part)].append((key, value))
        return self.base[(topic, part)] + len(self.logs[(topic, part)]) - 1

    def watermarks(self, topic, part):
        if (topic, part) not in self.logs:
            raise KafkaException("unknown partition %r" % ((topic, part),))
        lo = self.base[(topic, part)]
        return lo, lo + len(self.logs[(topic, part)])

    def committed_offset(self, group, topic, part):
        return self.committed.get((group, topic, part), OFFSET_INVALID)


BROKER = Broker()


class Message(object):
    def __init__(self, topic, part, offset, key, value):
        self._t, self._p, self._o, self._k, self._v = topic, part, offset, key, value

    def value(self):
        return self._v

    def key(self):
        return self._k

    def error(self):
        return None

    def offset(self):
        return self._o

    def partition(self):
        return self._p

    def topic(self):
        return self._t


class _PartitionMetadata(object):
    def __init__(self, i):
        self.id = i


class _TopicMetadata(object):
    def __init__(self, topic, n):
        self.topic = topic
        self.partitions = dict((i, _PartitionMetadata(i)) for i in range(n))


class _ClusterMetadata(object):
    def __init__(self, topics):
        self.topics = topics


class Consumer(object):
    def __init__(self, params, *args, **kwargs):
        self.params = dict(params)
        self.group = self.params.get('group.id')
        self.assigned = []
        self.pos = {}
        self.subscribed = []
        self.closed = False
        BROKER.calls.append(("consumer", self.group))

    def _check(self):
        if self.closed:
            raise RuntimeError("Consumer closed")

    def poll(self, timeout=None):
        self._check()
        for tp in self.assigned:
            k = (tp.topic, tp.partition)
            if k not in BROKER.logs:
                continue
            lo, hi = BROKER.watermarks(*k)
            p = self.pos[k]
            if p < lo:
                p = lo
            if p < hi:
                self.pos[k] = p + 1
                key, val = BROKER.logs[k][p - lo]
                return Message(tp.topic, tp.partition, p, key, val)
        return None

    def get_watermark_offsets(self, tp, timeout=None, cached=False):
        self._check()
        return BROKER.watermarks(tp.topic, tp.partition)

    def list_topics(self, topic=None, timeout=-1):
        self._check()
        names = [topic] if topic is not None else sorted(set(k[0] for k in BROKER.logs))
        return _ClusterMetadata(dict((t, _TopicMetadata(t, BROKER.npartitions(t))) for t in names))

    def committed(self, tps, timeout=None):
        self._check()
        return [TopicPartition(tp.topic, tp.partition, BROKER.committed_offset(self.group, tp.topic, tp.partition))
                for tp in tps]

    def commit(self, message=None, offsets=None, asynchronous=True):
        self._check()
        for tp in (offsets or []):
            BROKER.calls.append(("commit", self.group, tp.partition, tp.offset))
            BROKER.committed[(self.group, tp.topic, tp.partition)] = tp.offset

    def assign(self, tps):
        self._check()
        self.assigned = list(tps)
        for tp in tps:
            self.pos[(tp.topic, tp.partition)] = tp.offset
            BROKER.calls.append(("assign", tp.partition, tp.offset))

    def subscribe(self, topics):
        self._check()
        self.subscribed = list(topics)

    def unsubscribe(self):
        self.subscribed = []

    def close(self):
        if not self.closed:
            self.closed = True
            BROKER.calls.append(("close",))
