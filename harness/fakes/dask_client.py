"""In-memory fake of the part of `distributed.Client` that streamz.dask uses, with the completion order of
tasks under the control of the harness.

* `submit(f, *args, **kw)` returns a FakeFuture; nothing is computed until `task_done(id)`.
  A task is *eligible* when every future nested in its arguments (tuples / lists / dict values, as
  distributed unpacks them) is finished.  Its value is then computed from the values of those futures.
* `scatter([x], asynchronous=True, hash=False)` returns an awaitable of `[finished future holding x]`.
* `gather(obj, asynchronous=True)` returns an awaitable that resolves to `obj` with every nested future replaced by
  its value, as soon as all of them are finished.  Waiters that become ready at the same `task_done` are resolved in
  registration order (an artefact of the fake: a real cluster may resolve them in any order).
Futures of both kinds are numbered in creation order; that number is the id used by the schedules and by the Coq
model (Ext/DaskFutures.v: position in the store).
"""
import asyncio


class FakeFuture:
    __slots__ = ("id", "fn", "args", "kwargs", "done", "value", "kind", "error")

    def __init__(self, id, kind, fn=None, args=(), kwargs=None, done=False, value=None):
        self.id = id
        self.kind = kind            # 'scatter' | 'submit'
        self.fn = fn
        self.args = args
        self.kwargs = kwargs or {}
        self.done = done
        self.value = value
        self.error = None           # exception raised by the task (or inherited from an argument)

    def __repr__(self):
        return "<F%d %s>" % (self.id, "done" if self.done else "pending")


def nested_futures(obj, acc=None):
    acc = [] if acc is None else acc
    if isinstance(obj, FakeFuture):
        acc.append(obj)
    elif isinstance(obj, (tuple, list, set)):
        for o in obj:
            nested_futures(o, acc)
    elif isinstance(obj, dict):
        for o in obj.values():
            nested_futures(o, acc)
    return acc


def unpack(obj):
    if isinstance(obj, FakeFuture):
        assert obj.done
        return obj.value
    if isinstance(obj, tuple):
        return tuple(unpack(o) for o in obj)
    if isinstance(obj, list):
        return [unpack(o) for o in obj]
    if isinstance(obj, dict):
        return {k: unpack(v) for k, v in obj.items()}
    return obj


class FakeClient:
    def __init__(self, loop=None):
        from tornado.ioloop import IOLoop
        self.loop = loop if loop is not None else IOLoop.current()
        self.futures = []          # every future ever created, by id
        self.waiters = []          # (obj, asyncio future) of pending gathers, registration order
        self.log = []              # ('submit', id, deps) | ('scatter', id) | ('done', id)

    # -- API used by streamz.dask ------------------------------------------------------------
    def submit(self, fn, *args, **kwargs):
        fut = FakeFuture(len(self.futures), 'submit', fn, args, kwargs)
        self.futures.append(fut)
        self.log.append(('submit', fut.id, [f.id for f in nested_futures((args, kwargs))]))
        return fut

    def scatter(self, data, asynchronous=True, hash=False, **kw):
        # like distributed: a list / tuple is scattered item by item (one future per item, same container type);
        # there is nothing to place for an empty one
        assert isinstance(data, (list, tuple)), "the fake client only scatters sequences (streamz boxes every element in a list)"
        if len(data) == 0:
            raise ValueError("scatter: no data to place (empty sequence)")
        out = []
        for x in data:
            fut = FakeFuture(len(self.futures), 'scatter', done=True, value=x)
            self.futures.append(fut)
            self.log.append(('scatter', fut.id))
            out.append(fut)
        res = asyncio.get_event_loop().create_future()
        res.set_result(out if isinstance(data, list) else tuple(out))
        return res

    def gather(self, obj, asynchronous=True, **kw):
        res = asyncio.get_event_loop().create_future()
        if all(f.done for f in nested_futures(obj)):
            self._resolve(obj, res)
        else:
            self.waiters.append((obj, res))
        return res

    # -- harness side ----------------------------------------------------------------------------
    def eligible(self):
        """ids of unfinished tasks whose argument futures are all finished"""
        return [f.id for f in self.futures
                if not f.done and all(d.done for d in nested_futures((f.args, f.kwargs)))]

    def unfinished(self):
        return [f.id for f in self.futures if not f.done]

    def task_done(self, k):
        """finish task k (must be eligible); returns False if it is not"""
        if k >= len(self.futures):
            return False
        f = self.futures[k]
        if f.done or not all(d.done for d in nested_futures((f.args, f.kwargs))):
            return False
        bad = [d.error for d in nested_futures((f.args, f.kwargs)) if d.error is not None]
        if bad:
            f.error = bad[0]        # a task whose argument failed fails with the same exception
        else:
            try:
                f.value = f.fn(*unpack(f.args), **unpack(f.kwargs))
            except Exception as e:   # the task raised: the future is finished, in error
                f.error = e
        f.done = True
        self.log.append(('done', k))
        still = []
        for obj, res in self.waiters:
            if all(d.done for d in nested_futures(obj)):
                if not res.done():
                    self._resolve(obj, res)
            else:
                still.append((obj, res))
        self.waiters = still
        return True

    @staticmethod
    def _resolve(obj, res):
        bad = [d.error for d in nested_futures(obj) if d.error is not None]
        if bad:
            res.set_exception(bad[0])
        else:
            res.set_result(unpack(obj))
