"""Source lifecycle family (C18): drives real Source subclasses (from_periodic, from_iterable) on the stepped
virtual loop under start/stop histories placed at every suspension point.

case = {"src": {"k": "periodic", "poll": ticks} | {"k": "iterable", "items": [...]}, "sink": "ctl"|"sync",
        "actions": [["start"], ["stop"], ["adv", ticks], ["ack"],
                    ["multi", ["start"|"stop", ...]]  several calls back to back in ONE loop callback (model: SMulti)],
        optional "stop_on": v, "stop_via": "src"|"node": the consumer calls stop() on the source (or on the sink node:
        Stream.stop walks upstream) from INSIDE its callback when it is handed v, i.e. while the polling coroutine is
        in the middle of an emission (model: ss_stop_on = Some v)}
"""
import logging
import vloop
from vloop import TICKS_PER_S

logging.disable(logging.CRITICAL)


def run_case(case):
    loop = vloop.fresh()
    st = {"deliv": [], "out": [], "n": 0}
    try:
        def build():
            from streamz import Stream
            sp = case["src"]
            if sp["k"] == "periodic":
                def cb():
                    st["n"] += 1
                    return st["n"]
                src = Stream.from_periodic(cb, poll_interval=sp["poll"] / TICKS_PER_S, asynchronous=True)
            elif sp["k"] == "textfile":
                # a real file holding sp["lines"] complete lines (values n are written as "n\n"); more lines can be appended
                # by the action ["append", [n, ...]]; the sink receives the int of every line
                import os, tempfile
                fd, fn = tempfile.mkstemp(prefix="c18_", suffix=".txt")
                os.close(fd)
                with open(fn, "w") as f:
                    f.write("".join("%d\n" % v for v in sp["lines"]))
                st["tmpfile"] = fn
                src = Stream.from_textfile(fn, poll_interval=sp.get("poll", 2) / TICKS_PER_S, asynchronous=True, start=False)
            else:
                src = Stream.from_iterable(list(sp["items"]), asynchronous=True)
            def react(x):
                if "stop_on" in case and x == case["stop_on"]:
                    (st["snk"] if case.get("stop_via") == "node" else st["src"]).stop()
            if case.get("sink", "ctl") == "ctl":
                def sinkf(x):
                    react(x)
                    f = loop.create_future()
                    st["out"].append(f)
                    return f
            else:
                def sinkf(x):
                    react(x)
                    return None
            snk = src.sink(sinkf)
            orig = snk.update

            def wrapped(x, who=None, metadata=None):
                st["deliv"].append([loop.ticks(), int(x) if sp["k"] == "textfile" else x])
                return orig(x, who=who, metadata=metadata)
            snk.update = wrapped
            st["src"], st["snk"] = src, snk
        loop.call_soon(build)
        loop.settle()
        obs = []

        def observe():
            o = {"now": loop.ticks(), "deliv": st["deliv"], "nout": len(st["out"]), "stopped": bool(st["src"].stopped)}
            st["deliv"] = []
            return o
        obs.append(observe())
        for a in case["actions"]:
            if a[0] == "start":
                loop.call_soon(st["src"].start)
                loop.settle()
            elif a[0] == "stop":
                loop.call_soon(st["src"].stop)
                loop.settle()
            elif a[0] == "multi":
                # several lifecycle calls back to back, with no turn of the event loop in between
                def many(calls=a[1]):
                    for c in calls:
                        getattr(st["src"], c)()
                loop.call_soon(many)
                loop.settle()
            elif a[0] == "ack":
                if st["out"]:
                    f = st["out"].pop(0)
                    loop.call_soon(lambda f=f: f.set_result(None))
                loop.settle()
            elif a[0] == "adv":
                loop.advance(a[1] / TICKS_PER_S)
            elif a[0] == "append":
                with open(st["tmpfile"], "a") as f:
                    f.write("".join("%d\n" % v for v in a[1]))
            obs.append(observe())
        return obs
    finally:
        try:
            st["snk"].destroy()
        except Exception:
            pass
        if st.get("tmpfile"):
            try:
                st["src"].file.close()
            except Exception:
                pass
            try:
                import os
                os.remove(st["tmpfile"])
            except Exception:
                pass
        vloop.dispose(loop)


if __name__ == "__main__":
    import json, sys
    c = json.loads(sys.argv[1])
    for a, o in zip([None] + c["actions"], run_case(c)):
        print(a, "->", o)
