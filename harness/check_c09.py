"""C09 — Kafka batches: gap-free offsets, commit after processing, at-least-once.
   proof cone (Props/C09.v) + correspondence of Ext/KafkaBatched.v with the real FromKafkaBatched driven on the stepped
   virtual loop against the in-memory confluent_kafka fake (compared inside Coq) + model-free oracle incl. a crash and
   restart after every step."""
import json
import os
import random
import re
import sys
import time
sys.path.insert(0, os.path.dirname(os.path.abspath(__file__)))
import common
import c09_cases as G
import c09_impl as I
import c09_oracle as O

PROP = "C09"
REFRESH_SIGS = ("C09/first-range/not-at-committed/refresh-discovered-partition",
                "C09/at-least-once/lost-after-restart/refresh-discovered-partition")


def clean(obs):
    return {"steps": [{k: v for k, v in st.items() if not k.startswith("_")} for st in obs["steps"]],
            "errors": obs.get("errors", [])}


def load_corpus():
    out = []
    for d in (os.path.join(common.VERIF, "corpus", PROP),):
        if os.path.isdir(d):
            for f in sorted(os.listdir(d)):
                if f.endswith(".json"):
                    out.append(json.load(open(os.path.join(d, f)))["case"])
    for e in common.load_known():
        if e.get("property") == PROP and isinstance(e.get("replay"), dict) and "case" in e["replay"]:
            out.append(e["replay"]["case"])
    return out


# ---------------------------------------------------------------------------- implementation + oracle
_probe_cache = {}


def probe(case, high, committed):
    key = json.dumps([case.get("reset"), case["maxb"], case.get("np"), case.get("refresh"), case.get("low", 0), high, committed])
    if key not in _probe_cache:
        _probe_cache[key] = I.restart_probe(case, high, committed)
    return _probe_cache[key]


def evaluate_one(case, with_probes=True, stats=None):
    """run the real code, apply the oracle; returns (obs, findings)"""
    try:
        obs = I.run_case(case)
    except Exception as e:     # the driver itself failed: report as an error observation
        return {"steps": [], "errors": [repr(e)], "crash": True}, [("C09/error", "driver raised %r" % (e,))]
    fnd = O.check(case, obs)
    if with_probes:
        for (k, high, committed, need) in O.probe_points(case, obs):
            if not need and all(c == O.NONE for c in committed):
                continue
            if any(c != O.NONE and c > h for c, h in zip(committed, high)):
                continue        # only after a wrong commit, which the main oracle reports
            pr = probe(case, high, committed)
            if stats is not None:
                stats["probes"] = stats.get("probes", 0) + 1
                stats["probe_offsets_required"] = stats.get("probe_offsets_required", 0) + sum(len(v) for v in need.values())
            for s in O.check_probe(case, k, high, committed, need, pr):
                if s[0] not in [f[0] for f in fnd]:
                    fnd.append(s)
    return obs, fnd


def _fails(case, sig):
    try:
        _, fnd = evaluate_one(case)
    except Exception:
        return False
    return any(s == sig for s, _ in fnd)


def shrink(case, sig, budget=250):
    cur = json.loads(json.dumps(case))
    tries = [0]

    def attempt(c2):
        if tries[0] >= budget:
            return False
        tries[0] += 1
        return _fails(c2, sig)

    def valid(c):
        n = c["np0"]
        for e in c["events"]:
            if e[0] == "addpart":
                n += 1
            if e[0] == "produce" and e[1] >= n:
                return False
        return c["np"] is None or c["np"] <= c["np0"]

    changed = True
    while changed and tries[0] < budget:
        changed = False
        ev = cur["events"]
        cands = []
        for i in range(len(ev)):
            cands.append(dict(cur, events=ev[:i] + ev[i + 1:]))
        for i in range(len(ev)):
            if ev[i][0] == "produce" and ev[i][2] > 1:
                cands.append(dict(cur, events=ev[:i] + [["produce", ev[i][1], ev[i][2] - 1]] + ev[i + 1:]))
            if ev[i][0] == "done" and ev[i][1] > 0:
                cands.append(dict(cur, events=ev[:i] + [["done", 0]] + ev[i + 1:]))
        for p in range(len(cur["pre"])):
            if cur["pre"][p] > 0:
                cands.append(dict(cur, pre=cur["pre"][:p] + [cur["pre"][p] - 1] + cur["pre"][p + 1:]))
        if cur.get("low", 0) > 0:
            cands.append(dict(cur, low=0))
        if cur["sink"] != "sync":
            cands.append(dict(cur, sink="hold"))
        for c2 in cands:
            if c2 != cur and valid(c2) and attempt(c2):
                cur = c2
                changed = True
                break
    return cur


# ---------------------------------------------------------------------------- correspondence
_NATLIST = re.compile(r"=\s*(\[[^\]]*\]|nil)\s*:\s*list\s+nat", re.S)


def correspondence(co, shard=150):
    """co: list of (case, obs).  Returns (mismatch idx vs as-found model, mismatch idx vs repaired model, errors)."""
    d = common.scratch(PROP)
    files = []
    for s in range(0, len(co), shard):
        part = list(range(s, min(len(co), s + shard)))
        p = os.path.join(d, "cases_%d.v" % (s // shard))
        with open(p, "w") as f:
            f.write(G.COQ_HEADER)
            f.write("Definition cs : list kcase := [\n%s\n].\n" % ";\n".join(G.coq_case(*co[i]) for i in part))
            f.write("Eval vm_compute in (mismatches_fix false cs).\nEval vm_compute in (mismatches_fix true cs).\n")
        files.append((p, part))
    res = common.run_case_files([p for p, _ in files])
    m_found, m_fixed, errors = [], [], []
    for p, part in files:
        rc, out = res[p]
        lists = _NATLIST.findall(out) if rc == 0 else []
        if len(lists) != 2:
            errors.append((p, out[-1500:]))
            continue
        a, b = [[] if body == "nil" else [int(x) for x in re.findall(r"\d+", body)] for body in lists]
        m_found += [part[j] for j in a]
        m_fixed += [part[j] for j in b]
    return sorted(m_found), sorted(m_fixed), errors


# ---------------------------------------------------------------------------- main
def nontrivial(case, obs):
    nr = sum(len(st["ranges"]) for st in obs["steps"])
    nc = sum(len(st["commits"]) for st in obs["steps"])
    return nr >= 2 and nc >= 1


def run(prop, tier, seed, replay=None):
    out = common.Outcome(prop, tier, seed)
    t0 = time.time()
    proof = common.props_check(prop)
    t_proof = time.time() - t0
    rng = random.Random(seed * 1000003 + 9)
    if replay:
        cases = [json.load(open(replay))["replay"]["case"]]
    else:
        cases = load_corpus() + G.gen_cases(rng, tier)
    known = common.known_signatures(prop)
    t1 = time.time()
    stats = {}
    co = []
    by_sig = {}
    # crash-after-every-step probes: every case in the thorough tier; in the quick tier every random case and
    # one in four of the systematic grid (each probe is a fresh process on a copy of the broker state)
    for ci, c in enumerate(cases):
        with_probes = True if (tier != "quick" or replay) else (ci % 2 == 0 or c["events"] != G.SYS_HIST)
        obs, fnd = evaluate_one(c, with_probes, stats)
        for sig, msg in fnd:
            by_sig.setdefault(sig, []).append((ci, msg))
        if not obs.get("crash"):
            co.append((c, obs))
    t_impl = time.time() - t1
    reported = 0
    for sig, lst in sorted(by_sig.items()):
        if sig in known:
            out.known_finding(sig, known[sig]["what"] + " (%d cases this run)" % len(lst))
            continue
        if reported < 3:
            ci, msg = min(lst, key=lambda t: len(json.dumps(cases[t[0]])))
            small = shrink(cases[ci], sig)
            o2, f2 = evaluate_one(small)
            m2 = [m for s, m in f2 if s == sig]
            out.violation(sig, (m2[0] if m2 else msg) + " [%d failing cases]" % len(lst),
                          {"case": small, "observed": clean(o2), "original_case": cases[ci]})
            reported += 1
    # ---- correspondence inside Coq (both variants of the partition discovery)
    t2 = time.time()
    m_found, m_fixed, errors = correspondence(co)
    t_coq = time.time() - t2
    for p, o_ in errors:
        out.violation("C09/correspondence-error", "coqc failed on generated cases: %s" % o_[-400:], {"file": p}, no_input=True)
    as_found_seen = any(s in by_sig for s in REFRESH_SIGS)
    if not m_found and (as_found_seen or m_fixed):
        variant, mism = "as-found: partitions discovered by refresh_partitions start at -1001 (model c_fix=false)", []
    elif not m_fixed:
        variant, mism = "repaired: discovered partitions start at the group's committed offset (model c_fix=true)", []
        if not m_found:
            variant = "both variants agree on every case of this run (no discriminating case)"
    else:
        variant = "NEITHER variant of the model matches"
        mism = m_found if len(m_found) <= len(m_fixed) else m_fixed
    discriminating = len(set(m_found) ^ set(m_fixed))
    widened = 0
    if mism and not out.violations:
        rng2 = random.Random(seed * 7919 + 3)
        extra = [G.random_case(rng2, 12) for _ in range(600)]
        widened = len(extra)
        found = None
        for c in extra:
            _, fnd = evaluate_one(c)
            new = [(s, m) for s, m in fnd if s not in known]
            if new:
                found = (c, new[0])
                break
        if found:
            c, (sig, msg) = found
            small = shrink(c, sig)
            out.violation(sig, msg, {"case": small, "original_case": c})
        else:
            c, o = co[mism[0]]
            out.violation("C09/correspondence/model-differs",
                          "Coq model (Ext/KafkaBatched.v) and implementation disagree on %d of %d cases (first: %s); "
                          "the oracle accepts all traces (+%d widened)" % (len(mism), len(co), json.dumps(c), widened),
                          {"case": c, "observed": clean(o), "model": "SZ.Ext.KafkaBatched.k_model",
                           "mismatching_cases": [co[i][0] for i in mism[:10]]}, no_input=True)
    if not proof["ok"]:
        out.violation("C09/proof/%s" % proof["failing"], "proof obligation no longer checks: %s" % proof["failing"],
                      {"theorem_or_file": proof["failing"], "log": proof["log"][-3000:]}, no_input=True)
    # ---- the Coq witness for "out-of-order completion breaks at-least-once" on the real code (why the proviso is there)
    ooo_note = "not run"
    try:
        ow = I.run_case(G.OOO_WITNESS)
        last = ow["steps"][-1]
        pr = I.restart_probe(G.OOO_WITNESS, last["high"], last["committed"])
        redelivered = sorted(o for (p, lo, hi) in pr["ranges"] for o in range(lo, hi + 1))
        ooo_note = ("reproduced on the implementation: batches [0..2],[3..5] in flight, the later one completes first, committed=%r, "
                    "restart re-delivers offsets %r (0..2 lost)" % (last["committed"], redelivered)) if 0 not in redelivered else \
                   ("NOT reproduced: restart re-delivers %r (the tree commits only contiguous prefixes?)" % redelivered)
    except Exception as e:
        ooo_note = "error %r" % (e,)
    # ---- coverage
    hist = {"reset": {}, "maxb": {}, "sink": {}, "partitions_at_end": {}, "refresh": {}, "np_given": {}, "low": {}, "events": {}}
    nontriv = set()
    n_ranges = n_commits = n_crash = n_ooo = n_multi_inflight = 0
    for c, o in co:
        for k, v in (("reset", str(c.get("reset"))), ("maxb", str(c["maxb"])), ("sink", c["sink"]),
                     ("refresh", str(bool(c.get("refresh")))), ("np_given", str(c.get("np") is not None)), ("low", str(c.get("low", 0))),
                     ("partitions_at_end", str(len(o["steps"][-1]["high"])))):
            hist[k][v] = hist[k].get(v, 0) + 1
        for e in c["events"]:
            hist["events"][e[0]] = hist["events"].get(e[0], 0) + 1
        n_ranges += sum(len(st["ranges"]) for st in o["steps"])
        n_commits += sum(len(st["commits"]) for st in o["steps"])
        n_crash += sum(1 for e in c["events"] if e[0] == "crash")
        n_ooo += any(st.get("_ooo") for st in o["steps"])
        n_multi_inflight += any(len(st.get("_undone", [])) >= 2 for st in o["steps"])
        if nontrivial(c, o):
            nontriv.add(json.dumps(c, sort_keys=True))
    samples = [c for c, o in co if nontrivial(c, o) and len(c["events"]) <= 8][:3]
    cov = {
        "obligations": proof["obligations"], "discharged": proof["discharged"],
        "evaluations": len(co), "distinct_nontrivial": len(nontriv),
        "rule": "one evaluation = one history run on the real from_kafka_batched (virtual loop, fake broker), every step compared with "
                "the Coq model and judged by the oracle; non-trivial = at least 2 ranges emitted and at least 1 commit; distinct by JSON "
                "of the case.  Cases: the full grid reset{earliest,latest,default} x max_batch_size{1,2,3,10} x partitions/npartitions "
                "x refresh{on,off} x low watermark{0,2} x sink{sync,hold,buffer} on a fixed 13-event history with a partition added on "
                "the fly and a crash, plus random histories (produce/poll/done in and out of order/addpart/crash).  Crash probes: after "
                "a step, a fresh source on a copy of the broker state is polled until quiet and must re-deliver every offset of every "
                "batch not completely processed (in-order partitions; not for reset=latest with nothing committed).",
        "traces_validated_against_impl": len(co) - len(mism),
        "disagreements_checked": len(mism),
        "model_variant_matched": variant,
        "cases_discriminating_the_variants": discriminating,
        "mismatches_vs_as_found_model": len(m_found), "mismatches_vs_repaired_model": len(m_fixed),
        "out_of_order_witness_C09_at_least_once_out_of_order_refuted": ooo_note,
        "crash_restart_probes": stats.get("probes", 0), "distinct_restart_probes_run": len(_probe_cache),
        "offsets_required_to_be_redelivered": stats.get("probe_offsets_required", 0),
        "ranges_emitted": n_ranges, "commits": n_commits, "crash_events_in_histories": n_crash,
        "cases_with_out_of_order_completion": n_ooo, "cases_with_two_or_more_batches_in_flight": n_multi_inflight,
        "histograms": hist,
        "oracle_findings_by_signature": {s: len(l) for s, l in by_sig.items()},
        "widened_search_cases": widened,
        "samples": samples,
        "seconds": {"proof": round(t_proof, 1), "impl+oracle": round(t_impl, 1), "coq_cases": round(t_coq, 1)},
    }
    extra_assumptions = [
        "C09: the broker and client library (librdkafka: rebalancing, asynchronous commit failure, errors, timeouts) are replaced by "
        "harness/fakes/confluent_kafka.py; commit(asynchronous=True) takes effect at once in the fake; a crash is modelled as discarding "
        "the event loop and every object of the run",
        "C09: 'completely processed' is observed as the harness-controlled consumer finishing (synchronous sink returning, a holding node "
        "releasing its reference, an asynchronous sink's future resolving behind buffer()); early release by non-waiting nodes is C04",
    ]
    return out.finish(proof, cov, extra_assumptions)


if __name__ == "__main__":
    import argparse
    ap = argparse.ArgumentParser()
    ap.add_argument("--tier", default=common.tier_from_env())
    ap.add_argument("--replay")
    a = ap.parse_args()
    sys.exit(run(PROP, a.tier, common.seed_from_env(), a.replay))
