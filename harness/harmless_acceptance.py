"""Acceptance run for behaviour-preserving refactorings: apply each diff of seeded/harmless*/ (one at a time) to the snapshot
of the library (VERIF_REPO, a git checkout), re-translate the source (gen_kernels.regenerate(): kernels, node methods,
_emit) and rebuild the property files whose cones contain the bridges.  A harmless rewrite must leave both quiet:
  translator ok  - regenerate() reports no KernelError
  bridges ok     - Props/C01 C05 C09 C10 C13 C16 C04 C06 C07 still build (every Base/Bridge*.v is in one of their cones)
The checkout is restored after every diff (`git apply -R`, then `git checkout -- .` as a safety net) and the generated
files are brought back to the unmodified source at the end.

Usage: harmless_acceptance.py [--quick] [suite-or-id ...]      e.g.  harmless_acceptance.py harmless2 h06 k03
  --quick   build only Base/Bridge*.vo (the bridge proofs themselves) instead of the property files on top of them
Exit status 0 iff every selected diff is quiet."""
import glob
import json
import os
import re
import sys
import time

sys.path.insert(0, os.path.dirname(os.path.abspath(__file__)))
import common
import gen_kernels
from kern_acceptance import sh, theorem_at

REPO = gen_kernels.REPO
TARGETS = ["theories/Props/%s.vo" % c for c in ("C01", "C05", "C09", "C10", "C13", "C16", "C04", "C06", "C07")]
QUICK = ["theories/Base/%s.vo" % b for b in ("BridgeKafka", "BridgeRateLimit", "BridgeRefCounter", "BridgeSlice", "BridgeNodes",
                                              "BridgeEmit", "BridgeAggs", "BridgeAggsVec", "BridgeAggsWindow", "BridgeAggsIloc")]


def build():
    """-> (translator errors {file: text}, bridge verdict or None, seconds)"""
    t0 = time.time()
    errs = gen_kernels.regenerate()
    common.ensure_makefile()
    rc, out = sh("timeout 1500 make -f Makefile.coq -j16 %s" % " ".join(TARGETS), cwd=common.COQ, timeout=1600)
    broken = None
    if rc != 0:
        m = re.search(r'File "([^"]+)", line (\d+)', out)
        if m:
            path = m.group(1)
            thm = theorem_at(os.path.join(common.COQ, path), int(m.group(2))) if "/Gen/" not in path else None
            broken = "%s line %s%s" % (os.path.relpath(path, "./theories") if path.startswith("./") else path, m.group(2),
                                       (" (%s)" % thm) if thm else "")
        else:
            broken = "build error: " + " ".join(out[-200:].split())
    return errs, broken, time.time() - t0


def suites():
    res = []
    for d in sorted(glob.glob(os.path.join(common.VERIF, "seeded", "harmless*"))):
        idx = {}
        p = os.path.join(d, "index.json")
        if os.path.exists(p):
            idx = {e["id"]: e for e in json.load(open(p))}
        for f in sorted(glob.glob(os.path.join(d, "*.diff"))):
            i = os.path.basename(f)[:-5]
            res.append((os.path.basename(d), i, f, idx.get(i, {})))
    return res


def main(sel):
    global TARGETS
    if "--quick" in sel:
        sel = [x for x in sel if x != "--quick"]
        TARGETS = QUICK
    rc, out = sh("git status --porcelain", cwd=REPO)
    if out.strip():
        print("the checkout %s is not clean" % REPO)
        return 2
    errs, broken, dt = build()
    print("%-10s %-5s %-11s %-8s %s   [%.0fs]" % ("(unchanged)", "", "ok" if not errs else "FAILS", "ok" if not broken else "BROKEN",
                                                 "; ".join("%s: %s" % kv for kv in errs.items()) or broken or "", dt))
    if errs or broken:
        print("the unmodified source is not quiet: nothing to compare with")
        return 2
    bad = 0
    last = None
    for suite, i, f, meta in suites():
        if sel and suite not in sel and i not in sel:
            continue
        if suite != last:
            print("---- %s %s" % (suite, "-" * 100))
            print("%-5s %-13s %-10s %-34s %s" % ("id", "translator", "bridges", "function", "kind / detail"))
            last = suite
        rc, out = sh("git apply %s" % f, cwd=REPO)
        if rc != 0:
            print("%-5s DIFF DOES NOT APPLY: %s" % (i, out.strip()[:200]))
            bad += 1
            continue
        try:
            errs, broken, dt = build()
        finally:
            sh("git apply -R %s" % f, cwd=REPO)
            sh("git checkout -- .", cwd=REPO)
        quiet = not errs and not broken
        bad += 0 if quiet else 1
        detail = meta.get("kind") or meta.get("what", "")
        if errs:
            detail = "; ".join("%s: %s" % kv for kv in sorted(errs.items()))
        elif broken:
            detail = broken
        print("%-5s %-13s %-10s %-34s %s   [%.0fs]" % (i, "ok" if not errs else "KernelError", "-" if errs else ("ok" if not broken else "BROKEN"),
                                                     (meta.get("function") or meta.get("area", ""))[:34], detail[:200], dt))
        sys.stdout.flush()
    errs, broken, dt = build()          # generated files back to the unmodified source
    print("%d diff(s) not quiet" % bad)
    return 1 if bad else 0


if __name__ == "__main__":
    sys.exit(main(sys.argv[1:]))
