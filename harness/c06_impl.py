"""C06: catalogue of streaming dataframe aggregations, driver of the REAL streamz API, model-free pandas oracle.

case = {"agg": id, "rows": [[x, y, k]...], "sizes": [...], "filt": None | t, "dtype": "float" | "int"}
 * filt = t : the aggregation is applied to `sdf[sdf.x > t]` (an upstream boolean filter that may empty batches)
obs  = list (one per batch) of {"exc": None|str, "val": canon|None, "state": canon|None}
"""
import logging
import warnings
from collections import OrderedDict

import numpy as np
import pandas as pd

logging.disable(logging.CRITICAL)

import df_common as dfc

XY = ["x", "y"]

# id -> (build(sdf) -> streaming object, oracle(df) -> pandas value, quotient?, coq agg term, post)
AGGS = OrderedDict()


def _reg(aid, build, oracle, quot, coq, square=False, keycol="k"):
    AGGS[aid] = {"build": build, "oracle": oracle, "quot": quot, "coq": coq, "square": square, "keycol": keycol}


def _sel(d, sh):
    return d.x if sh == "s" else d[XY]


def _osel(df, sh):
    return df["x"] if sh == "s" else df[XY]


_SH = {"s": "(Ser 0)", "d": "(Fr [0;1]%nat)"}

for sh in ("s", "d"):
    _reg(sh + ".sum", lambda d, sh=sh: _sel(d, sh).sum(), lambda df, sh=sh: _osel(df, sh).sum(), False, "(ARed RSum %s)" % _SH[sh])
    _reg(sh + ".count", lambda d, sh=sh: _sel(d, sh).count(), lambda df, sh=sh: _osel(df, sh).count(), False, "(ARed RCount %s)" % _SH[sh])
    _reg(sh + ".size", lambda d, sh=sh: _sel(d, sh).size, lambda df, sh=sh: _osel(df, sh).size, False, "(ARed RSize %s)" % _SH[sh])
    _reg(sh + ".mean", lambda d, sh=sh: _sel(d, sh).mean(), lambda df, sh=sh: _osel(df, sh).mean(), True, "(ARed RMean %s)" % _SH[sh])
    # expanding(): the same Aggregation objects driven by window_accumulator / diff_expanding
    _reg("e" + sh + ".sum", lambda d, sh=sh: _sel(d.expanding(), sh).sum(), lambda df, sh=sh: _osel(df, sh).sum(), False, "(AExp RSum %s)" % _SH[sh])
    _reg("e" + sh + ".count", lambda d, sh=sh: _sel(d.expanding(), sh).count(), lambda df, sh=sh: _osel(df, sh).count(), False, "(AExp RCount %s)" % _SH[sh])
    _reg("e" + sh + ".mean", lambda d, sh=sh: _sel(d.expanding(), sh).mean(), lambda df, sh=sh: _osel(df, sh).mean(), True, "(AExp RMean %s)" % _SH[sh])
    _reg("e" + sh + ".var1", lambda d, sh=sh: _sel(d.expanding(), sh).var(), lambda df, sh=sh: _osel(df, sh).var(), True, "(AExp (RVar 1) %s)" % _SH[sh])
    _reg("e" + sh + ".var0", lambda d, sh=sh: _sel(d.expanding(), sh).var(ddof=0), lambda df, sh=sh: _osel(df, sh).var(ddof=0), True, "(AExp (RVar 0) %s)" % _SH[sh])
    _reg("e" + sh + ".std1", lambda d, sh=sh: _sel(d.expanding(), sh).std(), lambda df, sh=sh: _osel(df, sh).std(), True, "(AExp (RVar 1) %s)" % _SH[sh], square=True)
    _reg("e" + sh + ".std0", lambda d, sh=sh: _sel(d.expanding(), sh).std(ddof=0), lambda df, sh=sh: _osel(df, sh).std(ddof=0), True, "(AExp (RVar 0) %s)" % _SH[sh], square=True)
_reg("es.size", lambda d: d.expanding().x.size, lambda df: df["x"].size, False, "(AExp RSize (Ser 0))")

_reg("vc.k", lambda d: d.k.value_counts(), lambda df: df["k"].value_counts(), False, "AVC", keycol="k")
_reg("vc.x", lambda d: d.x.value_counts(), lambda df: df["x"].value_counts(), False, "AVC", keycol="x")


# case["gsrc"]: the streaming-series grouper is taken from the UNFILTERED frame (pandas aligns it with the grouped frame
# by index), built before ("early") or after ("late") the grouped frame: the order in which the source serves the two
# branches differs, the result must not
_KEY = [None]


def _grp(d, gm, vs):
    g = d.groupby("k") if gm == "gc" else d.groupby(_KEY[0] if _KEY[0] is not None else d.k)
    return g.x if vs == "x" else g[XY]


def _ogrp(df, vs):
    g = df.groupby("k")
    return g["x"] if vs == "x" else g[XY]


_GM = {"gc": "GCol", "gs": "GSer"}
_VS = {"x": "[0]%nat", "xy": "[0;1]%nat"}
for gm in ("gc", "gs"):
    for vs in ("x", "xy"):
        p = "%s.%s." % (gm, vs)
        t = "%s %s" % (_GM[gm], _VS[vs])
        _reg(p + "sum", lambda d, gm=gm, vs=vs: _grp(d, gm, vs).sum(), lambda df, vs=vs: _ogrp(df, vs).sum(), False, "(AGrp GSum %s)" % t)
        _reg(p + "count", lambda d, gm=gm, vs=vs: _grp(d, gm, vs).count(), lambda df, vs=vs: _ogrp(df, vs).count(), False, "(AGrp GCount %s)" % t)
        _reg(p + "mean", lambda d, gm=gm, vs=vs: _grp(d, gm, vs).mean(), lambda df, vs=vs: _ogrp(df, vs).mean(), True, "(AGrp GMean %s)" % t)
        _reg(p + "var1", lambda d, gm=gm, vs=vs: _grp(d, gm, vs).var(), lambda df, vs=vs: _ogrp(df, vs).var(), True, "(AGrp (GVar 1) %s)" % t)
        if vs == "x":
            _reg(p + "size", lambda d, gm=gm, vs=vs: _grp(d, gm, vs).size(), lambda df, vs=vs: _ogrp(df, vs).size(), False, "(AGrp GSize %s)" % t)
            _reg(p + "var0", lambda d, gm=gm, vs=vs: _grp(d, gm, vs).var(ddof=0), lambda df, vs=vs: _ogrp(df, vs).var(ddof=0), True, "(AGrp (GVar 0) %s)" % t)
            _reg(p + "std1", lambda d, gm=gm, vs=vs: _grp(d, gm, vs).std(), lambda df, vs=vs: _ogrp(df, vs).std(), True, "(AGrp (GVar 1) %s)" % t, square=True)
            # a non-default ddof must reach the variance underneath
            _reg(p + "std0", lambda d, gm=gm, vs=vs: _grp(d, gm, vs).std(ddof=0), lambda df, vs=vs: _ogrp(df, vs).std(ddof=0), True, "(AGrp (GVar 0) %s)" % t, square=True)

AGG_IDS = list(AGGS)


def family(aid):
    """coarse family used in oracle signatures"""
    if aid.startswith(("gc.", "gs.")):
        return "groupby-" + aid.split(".")[2].rstrip("01")
    if aid.startswith("vc."):
        return "value_counts"
    head, op = aid.split(".")
    shape = "series" if head.endswith("s") else "frame"
    return ("expanding-" if head.startswith("e") else "") + shape + "-" + op.rstrip("01")


# ---------------------------------------------------------------------------
# driver
# ---------------------------------------------------------------------------

def _acc_node(stream):
    from streamz.core import accumulate
    n = stream
    while not isinstance(n, accumulate):
        n = n.upstreams[0]
    return n


def build_pipeline(case, start_kw=None):
    from streamz import Stream
    from streamz.dataframe import DataFrame
    src = Stream()
    sdf = DataFrame(src, example=dfc.example_df(case.get("dtype", "float"), case.get("ex", "row")))
    sdf0 = sdf
    key = sdf0.k if case.get("gsrc") == "early" else None
    if case.get("filt") is not None:
        sdf = sdf[sdf.x > case["filt"]]
    if case.get("gsrc") == "late":
        key = sdf0.k
    _KEY[0] = key
    try:
        out = AGGS[case["agg"]]["build"](sdf)
    finally:
        _KEY[0] = None
    return src, out


class ConstructionError(Exception):
    pass


def run_case(case):
    """drive the real API batch by batch; returns obs"""
    with warnings.catch_warnings():
        warnings.simplefilter("ignore")
        try:
            src, out = build_pipeline(case)
        except Exception as e:      # noqa: BLE001   building `sdf....agg()` itself failed
            raise ConstructionError(type(e).__name__, repr(e))
        node = _acc_node(out.stream)
        L = out.stream.sink_to_list()
        obs = []
        for b in dfc.batches_of(case["rows"], case["sizes"], case.get("dtype", "float")):
            n0 = len(L)
            rec = {"exc": None, "val": None, "state": None}
            try:
                src.emit(b)
            except Exception as e:                      # noqa: BLE001  (the exception IS the observation)
                rec["exc"] = type(e).__name__
            if len(L) == n0 + 1:
                try:
                    rec["val"] = dfc.canon(L[-1])
                except TypeError as e:
                    rec["exc"] = "canon:" + str(e)
            elif rec["exc"] is None:
                rec["exc"] = "no-emission" if len(L) == n0 else "multiple-emissions"
            try:
                rec["state"] = dfc.canon(node.state)
            except TypeError as e:
                rec["state"] = ["none"]
            obs.append(rec)
        return obs


# ---------------------------------------------------------------------------
# oracle: pandas on the concatenation of the first k batches
# ---------------------------------------------------------------------------

def expected(case):
    """list (per k) of canon(pandas agg of concat(first k batches)) or None when that prefix has no row"""
    with warnings.catch_warnings():
        warnings.simplefilter("ignore")
        bs = dfc.batches_of(case["rows"], case["sizes"], case.get("dtype", "float"))
        res = []
        for k in range(1, len(bs) + 1):
            df = pd.concat(bs[:k])
            if case.get("filt") is not None:
                df = df[df.x > case["filt"]]
            if len(df) == 0:
                res.append(None)
            else:
                res.append(dfc.canon(AGGS[case["agg"]]["oracle"](df)))
        return res


def count_zero_history(case):
    """for the scalar mean: True iff some batch was processed while the number of non-NaN x seen so far
    (including that batch) was 0 -- i.e. the first batch(es) were empty or all-NaN"""
    tot = 0
    hit = []
    pos = 0
    for s in case["sizes"]:
        rows = case["rows"][pos:pos + s]
        pos += s
        if case.get("filt") is not None:
            rows = [r for r in rows if r[0] is not None and r[0] > case["filt"]]
        tot += sum(1 for r in rows if r[0] is not None)
        hit.append(tot == 0)
    return hit


def oracle(case, obs):
    """-> list of (signature, message, k).  Model-free."""
    a = AGGS[case["agg"]]
    exp = expected(case)
    fam = family(case["agg"])
    out = []
    czh = count_zero_history(case)
    for k, (o, e) in enumerate(zip(obs, exp)):
        if o["exc"] is not None:
            kind = "empty-prefix" if e is None else "nonempty-prefix"
            out.append(("C06/raises/%s/%s/%s" % (fam, o["exc"], kind),
                        "%s: emit of batch %d raised %s (prefix %s)" % (case["agg"], k + 1, o["exc"], kind), k))
            continue
        if e is None:
            continue
        v = o["val"]
        if a["square"]:
            e = dfc.canon_map(e, lambda x: x * x)
            v = dfc.canon_map(v, lambda x: x * x)
        if not dfc.canon_equal(v, e, a["quot"]):
            if fam in ("series-mean", "expanding-series-mean") and any(czh[:k + 1]):
                kind = "count-zero-batch-seen"
            else:
                kind = "value-mismatch"
            out.append(("C06/%s/%s" % (fam, kind),
                        "%s after batch %d: streamz %r, pandas on the concatenated prefix %r" % (case["agg"], k + 1, o["val"], exp[k]), k))
    return out


def check(case):
    """worker entry: run + oracle; never raises"""
    try:
        obs = run_case(case)
    except ConstructionError as e:
        sig = "C06/raises/%s/%s/at-construction" % (family(case["agg"]), e.args[0])
        return {"crash": None, "obs": None,
                "findings": [(sig, "%s: constructing the streaming aggregation raised %s (example=%s, filter=%r)"
                              % (case["agg"], e.args[1], case.get("ex", "row"), case.get("filt")), -1)]}
    except Exception as e:      # noqa: BLE001
        return {"crash": "%s: %s" % (type(e).__name__, e), "obs": None, "findings": []}
    return {"crash": None, "obs": obs, "findings": oracle(case, obs)}


# ---------------------------------------------------------------------------
# elementwise expressions (oracle only): per-batch result equals pandas on that batch
# ---------------------------------------------------------------------------

EXPRS = OrderedDict([
    ("x+1", (lambda d: d.x + 1, lambda df: df.x + 1)),
    ("x*y", (lambda d: d.x * d.y, lambda df: df.x * df.y)),
    ("(x+y)*2-k", (lambda d: (d.x + d.y) * 2 - d.k, lambda df: (df.x + df.y) * 2 - df.k)),
    ("-x", (lambda d: -d.x, lambda df: -df.x)),
    ("x>1", (lambda d: d.x > 1, lambda df: df.x > 1)),
    ("df[x>1]", (lambda d: d[d.x > 1], lambda df: df[df.x > 1])),
    ("df[(x>0)&(y<3)]", (lambda d: d[(d.x > 0) & (d.y < 3)], lambda df: df[(df.x > 0) & (df.y < 3)])),
    ("df[['x']]", (lambda d: d[["x"]], lambda df: df[["x"]])),
    ("df[['y','x']]", (lambda d: d[["y", "x"]], lambda df: df[["y", "x"]])),
    ("assign z=x+y", (lambda d: d.assign(z=d.x + d.y), lambda df: df.assign(z=df.x + df.y))),
    ("assign z=x*2,w=y-k", (lambda d: d.assign(z=d.x * 2, w=d.y - d.k), lambda df: df.assign(z=df.x * 2, w=df.y - df.k))),
    ("setitem z=x+1", (lambda d: _setitem(d), lambda df: df.assign(z=df.x + 1))),
    ("x.map(+10)", (lambda d: d.x.map(_plus10), lambda df: df.x.map(_plus10))),
    ("df[x>1].y+1", (lambda d: d[d.x > 1].y + 1, lambda df: df[df.x > 1].y + 1)),
    ("x.round", (lambda d: (d.x / 3).round(1), lambda df: (df.x / 3).round(1))),
    ("x % 2", (lambda d: d.x % 2, lambda df: df.x % 2)),
])


def _plus10(v):
    return v + 10


def _setitem(d):
    d["z"] = d.x + 1
    return d


def check_elementwise(task):
    """task = (expr id, rows, sizes, dtype) -> list of findings"""
    eid, rows, sizes, dtype = task
    from streamz import Stream
    from streamz.dataframe import DataFrame
    build, orc = EXPRS[eid]
    res = []
    with warnings.catch_warnings():
        warnings.simplefilter("ignore")
        src = Stream()
        sdf = DataFrame(src, example=dfc.example_df(dtype))
        out = build(sdf)
        L = out.stream.sink_to_list()
        for k, b in enumerate(dfc.batches_of(rows, sizes, dtype)):
            n0 = len(L)
            try:
                src.emit(b)
            except Exception as e:      # noqa: BLE001
                res.append(("C06/elementwise/raises/%s" % type(e).__name__, "%s: batch %d raised %r" % (eid, k + 1, e), k))
                continue
            if len(L) != n0 + 1:
                res.append(("C06/elementwise/emission-count", "%s: batch %d produced %d outputs" % (eid, k + 1, len(L) - n0), k))
                continue
            want = orc(b)
            got = L[-1]
            try:
                if isinstance(want, pd.DataFrame):
                    pd.testing.assert_frame_equal(got, want, check_exact=True)
                else:
                    pd.testing.assert_series_equal(got, want, check_exact=True)
            except AssertionError as e:
                res.append(("C06/elementwise/value-mismatch", "%s: batch %d differs from pandas on that batch: %s" % (eid, k + 1, str(e)[:200]), k))
    return res


# ---------------------------------------------------------------------------
# tables for the exhaustive quick tier (small integers so float sums are exact; None = NaN)
# rows are [x, y, k]
# ---------------------------------------------------------------------------
N = None
TABLES = OrderedDict([
    # NaN first in x (count stays 0 over a non-empty prefix), colliding keys, a NaN key
    ("nan-first", [[N, 1, 1], [2, N, 2], [3, 4, 1], [N, N, N], [5, 2, 2]]),
    # keys that vanish (3 only at the start) and re-enter (1), repeated values, all-NaN group for y
    ("vanish", [[4, N, 3], [1, 2, 1], [1, 3, 2], [2, 2, 2], [7, N, 3], [0, 1, 1]]),
    # no NaN at all (also run with integer dtype)
    ("dense", [[1, 2, 1], [3, 1, 2], [2, 2, 1], [5, 0, 3], [4, 4, 2]]),
    # x entirely NaN
    ("x-all-nan", [[N, 1, 1], [N, 2, 2], [N, 3, 1]]),
])
