"""C07: drive the real streamz windowed aggregations on a case, and the model-free pandas oracle.

case = {"kind": "n"|"t", "w": N | T(ns), "agg": name, "group": None|"col"|"ser",
        "rows": [[stamp, key, val|None], ...], "sizes": [batch sizes]}"""
import dfw_common as D
import numpy as np
import pandas as pd
from streamz import Stream
from streamz.dataframe import DataFrame

PLAIN_AGGS = ["sum", "count", "size", "mean", "var", "var0", "std", "value_counts"]
GROUP_AGGS = ["sum", "count", "size", "mean", "var", "var0", "std"]
EXACT = {"sum", "count", "size", "value_counts"}
PLAIN_AGGS_X = PLAIN_AGGS + ["var2"]


def _apply(obj, agg, grouped):
    if agg == "sum":
        return obj.sum()
    if agg == "count":
        return obj.count()
    if agg == "size":
        return obj.size() if grouped else obj.size
    if agg == "mean":
        return obj.mean()
    if agg == "var":
        return obj.var(ddof=1)
    if agg == "var0":
        return obj.var(ddof=0)
    if agg == "var2":
        return obj.var(ddof=2)
    if agg == "std":
        return obj.std(ddof=1)
    if agg == "value_counts":
        return obj.value_counts()
    raise ValueError(agg)


def run_impl_steps(case):
    """Returns one canonical result per batch; a batch whose emit raised is ['exc', <exception class>].
    The example frame has one row: with an empty example Series.var() already divides 0/0 at construction."""
    dt = case["kind"] == "t"
    ex = D.mkframe([[0, 0, 1]], dt)
    source = Stream()
    sdf = DataFrame(source, example=ex)
    if case["kind"] == "n":
        w = sdf.window(n=case["w"])
    else:
        w = sdf.window(value=pd.Timedelta(case["w"], "ns"))
    g = case.get("group")
    if g == "col":
        res = _apply(w.groupby("k").x, case["agg"], True)
    elif g == "ser":
        res = _apply(w.groupby(w.k).x, case["agg"], True)
    else:
        res = _apply(w.x, case["agg"], False)
    L = res.stream.sink_to_list()
    out = []
    for b in D.batches_of(case["rows"], case["sizes"]):
        n0 = len(L)
        try:
            source.emit(D.mkframe(b, dt))
        except Exception as e:
            out.append(["exc", type(e).__name__])
            del L[n0:]
            continue
        if len(L) != n0 + 1:
            out.append(["exc", "emitted-%d-results" % (len(L) - n0)])
            del L[n0:]
            continue
        out.append(D.canon(L[-1]))
    return out


def window_rows(case, k):
    """rows inside the window after the k-th batch (k counted from 1): the property's own definition"""
    n = sum(case["sizes"][:k])
    pre = case["rows"][:n]
    if case["kind"] == "n":
        return pre[max(0, len(pre) - case["w"]):]
    if not pre:
        return []
    newest = max(r[0] for r in pre)
    return [r for r in pre if r[0] > newest - case["w"]]


def run_oracle(case):
    dt = case["kind"] == "t"
    out = []
    for k in range(1, len(case["sizes"]) + 1):
        df = D.mkframe(window_rows(case, k), dt)
        if case.get("group"):
            r = _apply(df.groupby("k").x, case["agg"], True)
        else:
            if case["agg"] == "size":
                r = df.x.size
            else:
                r = _apply(df.x, case["agg"], False)
        out.append(D.canon(r))
    return out


def compare(case, got, exp):
    """first batch index where implementation and oracle differ, with a failure kind; None if equal"""
    if len(got) != len(exp):
        return (min(len(got), len(exp)), "emission-count")
    exact = case["agg"] in EXACT
    for i, (a, b) in enumerate(zip(got, exp)):
        if a[0] == "exc" or b[0] == "exc":
            if a != b:
                return (i, "raises-" + (a[1] if a[0] == "exc" else "oracle"))
            continue
        if case["agg"] == "value_counts":
            # "every value present in the window is reported with its exact count"; absent values may show 0
            a = ["m", [kv for kv in a[1] if kv[1] != 0]] if a[0] == "m" else a
        if not D.canon_close(a, b, exact):
            kind = "value"
            if a[0] == "m" and b[0] == "m":
                ka, kb = [x[0] for x in a[1]], [x[0] for x in b[1]]
                if ka != kb:
                    kind = "keys"
            return (i, kind)
    return None


# ------------------------------------------------------------------------------------------------
# magnitude family (oracle only): long windows over LARGE integer columns (amounts in cents): the running sums stay
# int64 in streamz, so a formula that squares the running sum (instead of dividing first) wraps around silently
# ------------------------------------------------------------------------------------------------
def magnitude_table(case):
    n = case["rows"]
    i = np.arange(n, dtype="int64")
    vals = case["base"] + (i * 7919) % case["spread"]
    if case["dtype"] == "float":
        vals = vals.astype("float64")
    index = pd.date_range("2024-01-01", periods=n, freq="1s")
    return pd.DataFrame({"x": vals, "y": (i * 31) % 17}, index=index)


def run_magnitude(case):
    """returns None or (batch index, got, expected)"""
    df = magnitude_table(case)
    sdf = DataFrame(example=df.iloc[:0])
    if case["win"] == "n":
        w = sdf.window(n=case["w"])
    else:
        w = sdf.window(value=pd.Timedelta(seconds=case["w"]))
    obj = w.x if case["shape"] == "series" else w
    L = _apply(obj, case["agg"], False).stream.sink_to_list()
    B = case["batch"]
    for b in range((len(df) + B - 1) // B):
        sdf.emit(df.iloc[b * B:(b + 1) * B])
        seen = df.iloc[:(b + 1) * B]
        win = seen.iloc[-case["w"]:] if case["win"] == "n" else seen[seen.index > seen.index.max() - pd.Timedelta(seconds=case["w"])]
        exp = _apply(win.x if case["shape"] == "series" else win, case["agg"], False)
        if len(L) != b + 1:
            return (b, "nothing emitted", repr(exp))
        g = np.asarray(L[-1], dtype=float)
        e = np.asarray(exp, dtype=float)
        if g.shape != e.shape or not np.allclose(g, e, rtol=1e-6, atol=0, equal_nan=True):
            return (b, g.tolist(), e.tolist())
    return None
