"""C20: type-correct random pipeline specs, the model-free equivalence oracle, shrinking, and the Coq encoder."""
import json

from symbols import coq_sym, coq_val, val_from_json, z

# ---------------------------------------------------------------------------------------------------------
# generator.  types: 'int' | 'tup' (non-empty tuple) | 'any'
# ---------------------------------------------------------------------------------------------------------
KS = [1, 2, 3, -1]


def gen_leaf(rng, ty, allow_buffer=False):
    """returns (leaf, output type)"""
    kinds = ["map", "map", "accumulate", "accumulate", "partition", "sliding_window"]
    if ty == "tup":
        kinds += ["starmap", "starmap", "starmap"]
    k = rng.choice(kinds)
    if k == "map":
        if ty == "int":
            sym = rng.choice([["FInc"], ["FDouble"], ["FNeg"], ["FAddK", rng.choice(KS)], ["FAddK", rng.choice(KS)],
                              ["FModK", rng.choice([2, 3])], ["FPair"], ["FDeepSum"], ["FId"]])
        else:
            sym = rng.choice([["FId"], ["FDeepSum"], ["FDeepSum"]])
        style = rng.choice(["closure", "arg", "kw"]) if sym[0] == "FAddK" else "closure"
        out = {"FPair": "tup", "FId": ty}.get(sym[0], "int")
        return {"k": "map", "f": sym, "style": style}, out
    if k == "starmap":
        sym = rng.choice([["NSum"], ["NSumK", rng.choice(KS)], ["NSumK", rng.choice(KS)], ["NFirst"], ["NTuple"]])
        out = {"NFirst": "any", "NTuple": "tup"}.get(sym[0], "int")
        return {"k": "starmap", "f": sym}, out
    if k == "accumulate":
        has_start = rng.random() < 0.5
        if ty == "int" or has_start:
            sym = rng.choice([["BAdd"], ["BAdd"], ["BMax"], ["BSnd"], ["BCountTo", rng.choice([2, 3])],
                              ["BAddK", rng.choice(KS)], ["BAddK", rng.choice(KS)]])
        else:
            sym = ["BSnd"]
        start = {"v": rng.choice([0, 1, 5, -2])} if has_start else None
        rs = rng.random() < 0.4
        ws = rng.random() < 0.25
        if sym[0] == "BSnd":
            out = ty if (not has_start or ty == "int") else "any"
        else:
            out = "int"
        if rs and not has_start and ty != "tup":
            out = "any"          # first element passes through as is, later ones are (old, new) tuples
        elif rs:
            out = "tup" if has_start else "any"
        if ws:
            out = "tup"
        return {"k": "accumulate", "f": sym, "start": start, "rs": rs, "ws": ws}, out
    if k == "partition":
        return {"k": "partition", "n": rng.choice([1, 2, 2, 3])}, "tup"
    if k == "sliding_window":
        return {"k": "sliding_window", "n": rng.choice([1, 2, 2, 3]), "partial": rng.random() < 0.5}, "tup"
    raise KeyError(k)


def gen_chain(rng, ty, n):
    out = []
    for _ in range(n):
        l, ty = gen_leaf(rng, ty)
        out.append(l)
    return out, ty


def gen_parallel_stages(rng):
    """pipelines whose tasks are independent of one another (no accumulate, no buffer): every completion order of the
    outstanding tasks is possible, which is what makes gather's ordering work hard"""
    ty = "int"
    stages = []
    for _ in range(rng.choice([1, 1, 2, 3])):
        r = rng.random()
        if ty == "int" and r < 0.6:
            sym = rng.choice([["FInc"], ["FDouble"], ["FAddK", rng.choice(KS)], ["FNeg"]])
            stages.append({"k": "map", "f": sym, "style": rng.choice(["closure", "kw"]) if sym[0] == "FAddK" else "closure"})
        elif ty == "int" and r < 0.8:
            stages.append({"k": "union", "a": [{"k": "map", "f": ["FInc"], "style": "closure"}],
                           "b": [{"k": "map", "f": ["FDouble"], "style": "closure"}] if rng.random() < 0.7 else []})
        elif ty == "int":
            stages.append(rng.choice([{"k": "partition", "n": 2}, {"k": "sliding_window", "n": 2, "partial": True}]))
            ty = "tup"
        else:
            stages.append({"k": "starmap", "f": rng.choice([["NSum"], ["NSumK", rng.choice(KS)]])})
            ty = "int"
    return stages


def gen_case(rng, tier="quick"):
    # producer discipline first: it shapes the rest.  await[i] = wait for emit i to complete before emitting input i+1
    r = rng.random()
    discipline = "awaited" if r < 0.4 else ("none" if r < 0.65 else "mixed")
    if discipline != "awaited" and rng.random() < 0.45:
        stages = gen_parallel_stages(rng)
        n = rng.choice([3, 4, 5, 6] if tier == "quick" else [4, 5, 6, 7, 8, 9])
        mode = rng.choice(["random", "random", "random", "fifo", "lifo"])
        p_emit = rng.choice([0.3, 0.5, 0.5, 0.7])
    else:
        stages = gen_stages(rng, tier)
        n = rng.choice([1, 2, 3, 4, 5, 6] if tier == "quick" else [2, 3, 4, 5, 6, 7, 8, 9])
        mode = rng.choice(["random", "random", "random", "lifo", "lifo", "fifo"])
        p_emit = rng.choice([0.2, 0.5, 0.5, 0.9, 1.0])
    inputs = [[rng.choice([-3, 0, 1, 2, 3, 4, 7, 9]), rng.random() < 0.6] for _ in range(n)]
    if rng.random() < 0.12:
        # the elements are BATCHES (lists / tuples of numbers, some of them empty - an idle window, an empty poll) that the
        # first stage reduces to a number
        def batch():
            items = [rng.choice([-3, 0, 1, 2, 4, 7]) for _ in range(rng.choice([0, 0, 1, 2, 3]))]
            return {"l": items} if rng.random() < 0.5 else {"t": items}
        inputs = [[batch(), has] for (_, has) in inputs]
        stages = [{"k": "map", "f": ["FDeepSum"], "style": "closure"}] + stages
    sched = {"seed": rng.randrange(1 << 30), "mode": mode, "p_emit": p_emit}
    if discipline == "awaited":
        sched["await"] = [True] * n
    elif discipline == "none":
        sched["await"] = [False] * n
    else:
        sched["await"] = [rng.random() < 0.35 for _ in range(n)]
    return {"stages": stages, "inputs": inputs, "sched": sched}


def gen_stages(rng, tier="quick"):
    nst = rng.choice([1, 2, 2, 3, 3, 4] if tier == "quick" else [1, 2, 3, 3, 4, 5, 6])
    ty = "int"
    stages = []
    for _ in range(nst):
        r = rng.random()
        if r < 0.3:
            a, ta = gen_chain(rng, ty, rng.choice([1, 1, 2]))
            b, tb = gen_chain(rng, ty, rng.choice([0, 1, 1, 2]))
            if rng.random() < 0.5:
                stages.append({"k": "zip", "a": a, "b": b})
                ty = "tup"
            else:
                stages.append({"k": "union", "a": a, "b": b})
                ty = ta if ta == tb else "any"
        else:
            l, ty = gen_leaf(rng, ty)
            stages.append(l)
    # buffers on the main chain
    r = rng.random()
    nbuf = 0 if r < 0.45 else (1 if r < 0.9 else 2)
    for _ in range(nbuf):
        pos = rng.choice([len(stages), len(stages), rng.randrange(len(stages) + 1)])
        stages.insert(pos, {"k": "buffer", "n": rng.choice([1, 2, 5])})
    return stages


def leaves_of(case):
    for st in case["stages"]:
        if st["k"] in ("zip", "union"):
            for l in st["a"] + st["b"]:
                yield l
        else:
            yield st


def kinds_of(case):
    ks = set()
    for st in case["stages"]:
        ks.add(st["k"])
    for l in leaves_of(case):
        ks.add(l["k"])
    return ks


def buffer_positions(case):
    return [i for i, st in enumerate(case["stages"]) if st["k"] == "buffer"]


def last_segment_has_union(case):
    bp = buffer_positions(case)
    seg = case["stages"][(bp[-1] + 1) if bp else 0:]
    return any(st["k"] == "union" for st in seg)


# ---------------------------------------------------------------------------------------------------------
# oracle: the dask run must be observationally equal to the local run
# ---------------------------------------------------------------------------------------------------------
def judge(case, loc, dk):
    """-> list of (signature, message)"""
    out = []
    if loc["errors"] or loc["stalled"]:
        out.append(("C20/local-run-error", "local pipeline raised or stalled: %s" % (loc["errors"][:1],)))
        return out
    if dk["errors"]:
        out.append(("C20/dask-raises/" + "+".join(sorted(kinds_of(case))),
                    "dask pipeline raised where the local one did not: %s" % dk["errors"][:1]))
        return out
    if dk["stalled"] or dk["unfinished"]:
        out.append(("C20/dask-stalls/" + "+".join(sorted(kinds_of(case))),
                    "dask pipeline does not finish although every task completed (emit %s, unfinished %s)"
                    % (dk["emit_state"], dk["unfinished"])))
        return out
    ls, ds = loc["sunk"], dk["sunk"]
    aw = case.get("sched", {}).get("await")
    all_awaited = aw is None or all(aw)
    kinds = "+".join(sorted(kinds_of(case)))
    if all_awaited and last_segment_has_union(case):
        where = "bare-gather/fan-in-of-one-input"
    elif not all_awaited:
        where = "unawaited-producer/" + kinds
    else:
        where = kinds
    # prefix-consistent throughout: after every step the deliveries so far are a prefix of the local sequence
    cum, bad_step = [], None
    for k, st in enumerate(dk["steps"]):
        if st[1] is None:
            continue
        cum = cum + st[1]
        if cum != ls[:len(cum)]:
            bad_step = k
            break
    if ls != ds or bad_step is not None:
        key = lambda v: json.dumps(v, sort_keys=True)
        if sorted(map(key, ls)) == sorted(map(key, ds)):
            out.append(("C20/order/" + where,
                        "same elements, different order (first wrong after schedule step %s %s): local %s dask %s"
                        % (bad_step, dk["steps"][bad_step][0] if bad_step is not None else "", ls, ds)))
        else:
            out.append(("C20/values/" + kinds, "sink sequences differ: local %s dask %s" % (ls, ds)))
        return out
    if dk.get("overtaken"):
        # equal values hide it from the sequence comparison, but a later arrival was emitted before an earlier one
        out.append(("C20/order/" + where,
                    "gather emitted a later arrival before an earlier one (their values are equal): %s" % (ds,)))
        return out
    if loc["counts"] != dk["counts"]:
        out.append(("C20/refs/final-count/" + "+".join(sorted(kinds_of(case))),
                    "final reference counts differ: local %s dask %s" % (loc["counts"], dk["counts"])))
    lf = sorted(i for i, _ in loc["fired"])
    df = sorted(i for i, _ in dk["fired"])
    if lf != df:
        out.append(("C20/refs/callbacks/" + "+".join(sorted(kinds_of(case))),
                    "callbacks fired differ: local %s dask %s" % (loc["fired"], dk["fired"])))
    # never early: a callback must not fire before the last result carrying that input's metadata reached the sink
    # (metadata travels with the data, C10, so the sink sees which inputs a delivery derives from)
    for i, n in dk["fired"]:
        last = dk.get("last_md", {}).get(str(i), 0)
        if n < last:
            out.append(("C20/refs/early-callback/" + "+".join(sorted(kinds_of(case))),
                        "callback of input %d fired after %d deliveries, but delivery %d still derives from it" % (i, n, last)))
            break
    return out


def cls_of(sig):
    """failure class of a signature: the part that does not depend on which other node kinds are in the pipeline"""
    parts = sig.split("/")
    if parts[1] == "order" and "bare-gather" in sig:
        return sig
    if parts[1] == "order" and parts[2] == "unawaited-producer":
        return "/".join(parts[:3])
    return "/".join(parts[:3] if parts[1] == "refs" else parts[:2])


def shrink(case, cls, runner, budget=150):
    """greedy: drop stages / branch leaves / inputs, simplify the schedule, while the same failure class is reported"""
    cur = json.loads(json.dumps(case))
    used = [0]

    def fails(c):
        used[0] += 1
        try:
            return any(cls_of(s) == cls for s, _ in runner(c))
        except Exception:
            return False

    changed = True
    while changed and used[0] < budget:
        changed = False
        cands = []
        for i in range(len(cur["stages"])):
            c = json.loads(json.dumps(cur))
            del c["stages"][i]
            cands.append(c)
            st = cur["stages"][i]
            if st["k"] in ("zip", "union"):
                for br in ("a", "b"):
                    for j in range(len(st[br])):
                        if br == "a" and len(st["a"]) == 1:
                            continue
                        c = json.loads(json.dumps(cur))
                        del c["stages"][i][br][j]
                        cands.append(c)
        for i in range(len(cur["inputs"])):
            c = json.loads(json.dumps(cur))
            del c["inputs"][i]
            if c["sched"].get("await") is not None and i < len(c["sched"]["await"]):
                del c["sched"]["await"][i]
            cands.append(c)
        aw = cur["sched"].get("await")
        if aw is not None and not all(aw):
            c = json.loads(json.dumps(cur))
            c["sched"]["await"] = [True] * len(aw)
            cands.append(c)
        elif aw is not None and any(aw) and not all(aw):
            c = json.loads(json.dumps(cur))
            c["sched"]["await"] = [False] * len(aw)
            cands.append(c)
        for i in range(len(cur["inputs"])):
            if cur["inputs"][i][1]:
                c = json.loads(json.dumps(cur))
                c["inputs"][i][1] = False
                cands.append(c)
        for mode in ("fifo", "lifo"):
            if cur["sched"].get("mode") != mode or cur["sched"].get("p_emit") != 1.0:
                c = json.loads(json.dumps(cur))
                c["sched"] = {"seed": 0, "mode": mode, "p_emit": 1.0, "await": cur["sched"].get("await")}
                cands.append(c)
        for c in cands:
            if not c["stages"] or not c["inputs"]:
                continue
            if c["sched"].get("actions") is not None and \
                    (c["stages"] != cur["stages"] or c["inputs"] != cur["inputs"]):
                del c["sched"]["actions"]          # a scripted schedule only fits the case it was written for
            if used[0] >= budget:
                break
            if fails(c):
                cur = c
                changed = True
                break
    return cur


# ---------------------------------------------------------------------------------------------------------
# Coq encoding
# ---------------------------------------------------------------------------------------------------------
def coq_leaf(l):
    k = l["k"]
    if k == "map":
        return "LMap (tot1 %s)" % coq_sym(l["f"])
    if k == "starmap":
        if l["f"][0] == "NSumK":
            return "LStarmap (nsumk %s)" % z(l["f"][1])
        return "LStarmap (totN %s)" % coq_sym(l["f"])
    if k == "accumulate":
        f = "(baddk %s)" % z(l["f"][1]) if l["f"][0] == "BAddK" else "(tot2 %s)" % coq_sym(l["f"])
        if l.get("rs"):
            f = "(rsw %s)" % f
        start = "None" if l.get("start") is None else "(Some %s)" % coq_val(val_from_json(l["start"]["v"]))
        return "LAccum %s %s %s %s" % (f, start, "true" if l.get("rs") else "false", "true" if l.get("ws") else "false")
    if k == "partition":
        return "LPartition %d" % l["n"]
    if k == "sliding_window":
        return "LSliding %d %s" % (l["n"], "true" if l["partial"] else "false")
    if k == "buffer":
        return "LBuffer"
    raise KeyError(k)


def coq_stage(st):
    if st["k"] in ("zip", "union"):
        return "%s [%s] [%s]" % ("SZip" if st["k"] == "zip" else "SUnion",
                                 "; ".join(coq_leaf(l) for l in st["a"]), "; ".join(coq_leaf(l) for l in st["b"]))
    return "SLeaf (%s)" % coq_leaf(st)


def coq_vals(vs):
    return "[" + "; ".join(coq_val(val_from_json(v)) for v in vs) + "]"


def coq_case(case, loc, dk, ordered=False, flagged=False):
    bp = buffer_positions(case)
    sts = case["stages"]
    if len(bp) == 0:
        pre, post, buffered, op = [], sts, False, True
    elif len(bp) == 1:
        pre, post, buffered, op = sts[:bp[0]], sts[bp[0] + 1:], True, True
    else:
        pre, post, buffered, op = sts, [], False, False
    steps = [s for s in dk["steps"] if s[1] is not None]
    evs = []
    for s in steps:
        a = s[0]
        if a[0] == "emit":
            evs.append("EEmit %s" % coq_val(val_from_json(case["inputs"][a[1]][0])))
        else:
            evs.append("EDone %d" % a[1])
    complete = (not flagged) and (not dk["stalled"]) and not dk["unfinished"] and not dk["errors"] \
        and sum(1 for s in steps if s[0][0] == "emit") == len(case["inputs"])
    return ("Build_dcase (Build_cfg [%s] [%s] %s) %s %s %s %s\n  [%s]\n  [%s]\n  %s"
            % ("; ".join(coq_stage(s) for s in pre), "; ".join(coq_stage(s) for s in post),
               "true" if ordered else "false",
               "true" if buffered else "false", "true" if op else "false", "true" if complete else "false",
               coq_vals([i[0] for i in case["inputs"]]),
               "; ".join(evs), "; ".join(coq_vals(s[1]) for s in steps), coq_vals(loc["sunk"])))


HEADER = ("From Coq Require Import List ZArith.\nFrom SZ Require Import Base.Values.\n"
          "From SZ Require Import Ext.DaskFutures.\nFrom SZ Require Import Ext.DaskFuturesCases.\n"
          "Import ListNotations.\nClose Scope Z_scope. Open Scope nat_scope.\n")


def write_files(d, encoded, per=150, tag="cases"):
    import os
    paths = []
    for k in range(0, len(encoded), per):
        p = os.path.join(d, "%s_%03d.v" % (tag, k // per))
        with open(p, "w") as f:
            f.write(HEADER)
            f.write("Definition cases : list dcase := [\n")
            f.write(";\n".join(encoded[k:k + per]))
            f.write("].\nEval vm_compute in (mismatches false cases).\nEval vm_compute in (mismatches true cases).\n")
        paths.append(p)
    return paths
