"""C20 smoke check on a REAL in-process distributed cluster (thorough tier).  Run as a subprocess:
   python c20_real.py '<json list of cases>'  ->  one JSON line {"ok": bool, "results": [[local, dask], ...]} .
Pass/fail only on final sink sequences."""
import json
import sys
import os

sys.path.insert(0, os.path.dirname(os.path.abspath(__file__)))


def main():
    cases = json.loads(sys.argv[1])
    import logging
    logging.disable(logging.CRITICAL)
    try:
        import dask
        from distributed import Client
        dask.config.set({"distributed.admin.system-monitor.disk": False})
        client = Client(processes=False, set_as_default=True, dashboard_address=None, n_workers=1,
                        threads_per_worker=4)
    except Exception as e:
        print(json.dumps({"ok": False, "skipped": "cluster did not start: %s: %s" % (type(e).__name__, e)}))
        return
    import c20_impl
    from symbols import val_from_json, val_to_json
    from streamz import Stream
    import streamz.dask  # noqa
    out = []
    try:
        for case in cases:
            res = []
            for dask_mode in (False, True):
                source = Stream()
                s = source.scatter() if dask_mode else source
                s = c20_impl.attach(s, case["stages"])
                L = s.gather().sink_to_list()
                for vj, _ in case["inputs"]:
                    source.emit(val_from_json(vj))
                if dask_mode:
                    # a buffer lets emit return before the element reached the sink: wait for the drain
                    import time
                    t0 = time.time()
                    while len(L) < len(res[0]) and time.time() - t0 < 15:
                        time.sleep(0.05)
                    time.sleep(0.2)
                res.append([val_to_json(v) for v in L])
            out.append(res)
        print(json.dumps({"ok": True, "results": out}))
    finally:
        try:
            client.close(timeout=5)
        except Exception:
            pass


if __name__ == "__main__":
    main()
    sys.stdout.flush()
    os._exit(0)
