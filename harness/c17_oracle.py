"""C17 oracle: the property's clauses evaluated directly on what the real code delivered.
Pure python, independent of the Coq model.  Each finding is (signature, message)."""
import re


def _ref_records(text, delim):
    parts = text.split(delim)
    return [p + delim for p in parts[:-1]], parts[-1]


def tf_text(case):
    return ("" if case["from_end"] else case["pre"]) + "".join(case["chunks"])


def check_tf(case, obs):
    if "crash" in obs:
        return [("C17/from_textfile/raised", "_run raised: %s" % obs["crash"])]
    d = case["delim"]
    text = tf_text(case)
    polls, buf = obs["polls"], obs["buffer"]
    recs = [r for p in polls for r in p]
    out = []
    if len(polls) != len(case["chunks"]):
        return [("C17/harness/poll-count", "driver produced %d polls for %d chunks" % (len(polls), len(case["chunks"])))]
    if not all(isinstance(r, str) for r in recs) or not isinstance(buf, str):
        return [("C17/from_textfile/non-str-record", "emitted %r buffer %r" % (recs, buf))]
    # (a) nothing lost, duplicated, reordered, modified
    if "".join(recs) + buf != text:
        out.append(("C17/from_textfile/not-lossless",
                    "records+buffer %r differ from written text %r" % ("".join(recs) + buf, text)))
    # (b) exactly the records of a one-shot split of the whole text
    exp, tail = _ref_records(text, d)
    if recs != exp or buf != tail:
        out.append(("C17/from_textfile/differs-from-one-shot-split",
                    "emitted %r + held %r, one-shot split gives %r + %r" % (recs, buf, exp, tail)))
    # (c) each record ends with the delimiter, which occurs nowhere else in it
    for r in recs:
        if not r.endswith(d) or r.find(d) != len(r) - len(d):
            out.append(("C17/from_textfile/record-not-delimiter-terminated", "record %r, delimiter %r" % (r, d)))
            break
    # (d) the held-back tail has no complete delimiter
    if d in buf:
        out.append(("C17/from_textfile/delimiter-held-back", "buffer %r contains delimiter %r" % (buf, d)))
    # hold-back / timeliness: after every poll, exactly the complete records of the text written so far
    sofar = "" if case["from_end"] else case["pre"]
    acc = []
    for k, (ch, p) in enumerate(zip(case["chunks"], polls)):
        sofar += ch
        acc += p
        e, _ = _ref_records(sofar, d)
        # a poll that read nothing does not look at the buffer: pre-existing text is only seen by a read
        if acc != e:
            out.append(("C17/from_textfile/record-early-or-late",
                        "after poll %d emitted %r, complete records so far %r" % (k, acc, e)))
            break
    return out


def check_fn(case, obs, snaps):
    if "crash" in obs:
        return [("C17/filenames/raised", "_run raised: %s" % obs["crash"])]
    polls = obs["polls"]
    out = []
    if len(polls) != len(snaps):
        return [("C17/harness/poll-count", "driver produced %d polls for %d steps" % (len(polls), len(snaps)))]
    flat = [x for p in polls for x in p]
    if len(set(flat)) != len(flat):
        dup = sorted(x for x in set(flat) if flat.count(x) > 1)
        out.append(("C17/filenames/emitted-twice", "names emitted more than once: %r" % dup))
    for k, p in enumerate(polls):
        if p != sorted(p):
            out.append(("C17/filenames/poll-not-sorted", "poll %d emitted %r" % (k, p)))
            break
    before = set()
    for k, (p, s) in enumerate(zip(polls, snaps)):
        first = set(s) - before
        if set(p) - first:
            out.append(("C17/filenames/unexpected-name", "poll %d emitted %r, new names are %r" % (k, p, sorted(first))))
            break
        if first - set(p):
            out.append(("C17/filenames/missing-or-late", "poll %d emitted %r, new names are %r" % (k, p, sorted(first))))
            break
        before |= set(s)
    return out


def check_sp(case, obs):
    return []


def _universal(text):
    return re.sub("\r\n|\r", "\n", text)


def check_io(case, obs):
    if "crash" in obs:
        return [("C17/from_textfile/io/harness-crash", obs["crash"])]
    raw = b"".join(bytes.fromhex(h) for h in case["chunks_hex"])
    d = case["delim"]
    try:
        whole = raw.decode("utf-8")
    except UnicodeDecodeError:
        return []
    if obs.get("exception"):
        if obs["exception"] == "UnicodeDecodeError":
            return [("C17/from_textfile/textmode/utf8-cut-by-poll",
                     "_run raised UnicodeDecodeError although the bytes written (%r) are valid UTF-8: a poll fell inside a multi-byte character" % raw)]
        return [("C17/from_textfile/io/raised/%s" % obs["exception"], "_run raised %s on %r" % (obs["exception"], raw))]
    recs = [r for p in obs["polls"] for r in p]
    ok = []
    for cand in ([whole, whole[:-1]] if whole.endswith("\r") else [whole]):
        e, t = _ref_records(_universal(cand), d)
        ok.append((e, t))
    if not any(recs == e for e, _ in ok):
        if b"\r" in raw:
            return [("C17/from_textfile/textmode/crlf-cut-by-poll",
                     "bytes %r written as %r: emitted %r, the same bytes read at once give %r (a CR pending at the end of a poll is flushed as a newline)"
                     % (raw, [bytes.fromhex(h) for h in case["chunks_hex"]], recs, ok[0][0]))]
        return [("C17/from_textfile/io/records-differ", "bytes %r: emitted %r expected %r" % (raw, recs, ok[0][0]))]
    return []


def cut_inside_delimiter(case):
    """does some chunk boundary fall strictly inside a (leftmost, non-overlapping) delimiter occurrence?"""
    d = case["delim"]
    text = tf_text(case)
    cuts = set()
    pos = 0 if case["from_end"] else len(case["pre"])
    for ch in case["chunks"][:-1]:
        pos += len(ch)
        cuts.add(pos)
    i = text.find(d)
    while i >= 0:
        if any(i < c < i + len(d) for c in cuts):
            return True
        i = text.find(d, i + len(d))
    return False
