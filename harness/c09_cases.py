"""C09 case generation (one seeded PRNG) and the Gallina encoding of a case + its observed trace."""
import itertools

MAXB = [1, 2, 3, 10]
RESETS = ["earliest", "latest", None]
SINKS = ["sync", "hold", "buffer", "slow"]
LOWS = [0, 0, 0, 2, 5]


def random_case(rng, max_events, crash_w=0.7, addpart_w=0.5):
    np0 = rng.choice([1, 1, 2, 2, 3])
    refresh = rng.random() < 0.5
    np_ = None if rng.random() < 0.5 else rng.randint(1, np0)
    case = {"reset": rng.choice(RESETS), "maxb": rng.choice(MAXB), "np0": np0, "np": np_, "refresh": refresh,
            "low": rng.choice(LOWS), "sink": rng.choice(SINKS),
            "pre": [rng.choice([0, 0, 1, 2, 3, 4]) for _ in range(np0)], "events": []}
    nparts = np0
    n = rng.randint(3, max_events)
    for _ in range(n):
        r = rng.random() * (3 + 4 + 3 + addpart_w + crash_w)
        if r < 3:
            case["events"].append(["produce", rng.randrange(nparts), rng.choice([1, 1, 2, 3, 4, 7])])
        elif r < 7:
            case["events"].append(["poll"])
        elif r < 10:
            # mostly in order (k = 0), sometimes any outstanding batch
            case["events"].append(["done", 0 if rng.random() < 0.65 else rng.randrange(1, 5)])
        elif r < 10 + addpart_w:
            if nparts < 4:
                nparts += 1
                case["events"].append(["addpart"])
            else:
                case["events"].append(["poll"])
        else:
            case["events"].append(["crash"])
    return case


SYS_HIST = [["produce", 0, 3], ["poll"], ["done", 0], ["addpart"], ["produce", 1, 4], ["poll"], ["poll"], ["done", 0],
            ["produce", 0, 2], ["poll"], ["crash"], ["poll"], ["done", 0]]


def systematic_cases():
    """small exhaustive family: every configuration of the finite parameter grid on a fixed two-partition history with
    a partition added on the fly, in-order completion, crash near the end"""
    hist = SYS_HIST
    out = []
    for reset, maxb, (np0, np_), refresh, low, sink in itertools.product(
            RESETS, MAXB, [(1, None), (1, 1), (2, None), (2, 1)], [False, True], [0, 2], SINKS):
        out.append({"reset": reset, "maxb": maxb, "np0": np0, "np": np_, "refresh": refresh, "low": low, "sink": sink,
                    "pre": [2] * np0, "events": [list(e) for e in hist]})
    return out


def ooo_case(rng, max_events):
    """several batches of the same partition in flight, completed in arbitrary order (holding consumer)"""
    np0 = rng.choice([1, 1, 2])
    case = {"reset": rng.choice(["earliest", "earliest", "latest"]), "maxb": rng.choice([1, 2, 3]), "np0": np0, "np": None,
            "refresh": rng.random() < 0.3, "low": rng.choice([0, 0, 2]), "sink": "hold",
            "pre": [rng.choice([3, 5, 8]) for _ in range(np0)], "events": []}
    for _ in range(rng.randint(4, max_events)):
        r = rng.random()
        if r < 0.15:
            case["events"].append(["produce", rng.randrange(np0), rng.choice([1, 2, 5])])
        elif r < 0.5:
            case["events"].append(["poll"])
        elif r < 0.92:
            case["events"].append(["done", rng.randrange(0, 4)])
        else:
            case["events"].append(["crash"])
    return case


# Coq witness of Props/C09.v C09_at_least_once_out_of_order_refuted as a harness case
OOO_WITNESS = {"reset": "earliest", "maxb": 3, "np0": 1, "np": None, "refresh": False, "low": 0, "sink": "hold", "pre": [6],
               "events": [["poll"], ["done", 1]]}


def gen_cases(rng, tier):
    cases = systematic_cases() + [OOO_WITNESS]
    if tier == "quick":
        cases += [random_case(rng, 8) for _ in range(500)]
        cases += [random_case(rng, 16) for _ in range(500)]
        cases += [ooo_case(rng, 12) for _ in range(250)]
    else:
        cases += [random_case(rng, 8) for _ in range(3000)]
        cases += [random_case(rng, 20) for _ in range(4000)]
        cases += [random_case(rng, 40, crash_w=1.2) for _ in range(1000)]
        cases += [ooo_case(rng, 20) for _ in range(2500)]
    return cases


# ---------------------------------------------------------------------------------------------- Coq encoding
COQ_HEADER = ("From Coq Require Import List ZArith Bool.\n"
              "From SZ Require Import Ext.KafkaBatched.\n"
              "Import ListNotations.\nOpen Scope Z_scope.\n")


def zz(n):
    return "(%d)" % n if n < 0 else "%d" % n


def nn(n):
    assert 0 <= n < 5000, n
    return "%d%%nat" % n


def coq_event(e):
    k = e[0]
    if k == "Poll":
        return "Poll"
    if k == "Crash":
        return "Crash"
    if k == "AddPartition":
        return "AddPartition"
    if k == "Produce":
        return "Produce %s %s" % (nn(e[1]), nn(e[2]))
    if k == "BatchDone":
        return "BatchDone %s" % nn(e[1])
    raise KeyError(k)


def coq_cfg(case, fix=False):
    return ("{| c_maxb := %s; c_latest := %s; c_np := %s; c_refresh := %s; c_low := %s; c_fix := %s |}" % (
        zz(case["maxb"]), "false" if case.get("reset") == "earliest" else "true",
        "None" if case.get("np") is None else "Some %s" % nn(case["np"]),
        "true" if case.get("refresh") else "false", zz(case.get("low", 0)), "true" if fix else "false"))


def coq_case(case, obs):
    low = case.get("low", 0)
    pre = [low + n for n in case.get("pre", [])] + [low] * (case["np0"] - len(case.get("pre", [])))
    steps = "; ".join("[%s]" % "; ".join(coq_event(e) for e in st["model_events"]) for st in obs["steps"])
    observed = "; ".join("([%s], [%s])" % (
        "; ".join("(%s, %s, %s)" % (nn(p), zz(lo), zz(hi)) for p, lo, hi in st["ranges"]),
        "; ".join("(%s, %s)" % (nn(p), zz(o)) for p, o in st["commits"])) for st in obs["steps"])
    return "{| k_cfg := %s; k_pre := [%s]; k_steps := [%s]; k_observed := [%s] |}" % (
        coq_cfg(case), "; ".join(zz(h) for h in pre), steps, observed)
