"""C09 driver: runs the REAL Stream.from_kafka_batched on the stepped virtual loop against the in-memory
confluent_kafka fake (harness/fakes/confluent_kafka.py).

case = {"reset": "earliest" | "latest" | None (key absent -> streamz defaults to latest),
        "maxb": int, "np0": partitions existing before the first start, "np": None | int (npartitions argument),
        "refresh": bool, "low": low watermark of every partition (offset of the first retained message),
        "sink": "sync"   starmap -> synchronous sink (a batch is completely processed when update returns)
              | "hold"   starmap -> a node that keeps a reference to every batch until the harness releases it
                         (any completion order; the retain/release protocol every waiting node uses)
              | "buffer" starmap -> buffer(8) -> asynchronous sink whose futures the harness resolves (oldest first),
        "pre": [n_p ...] messages in each of the np0 partitions before the first start,
        "events": [["produce", p, n] | ["addpart"] | ["poll"] | ["done", i] | ["crash"]]}
   "done k": hold: release the (k mod m)-th oldest of the m batches the consumer currently holds (k = 0: in order;
             no-op if it holds none); buffer: k is ignored, the oldest outstanding sink future is resolved.
   "crash": the process dies (event loop discarded, nothing of the old run ever executes again) and a new source with the
            same configuration and group id is built and started on the same broker.
Observation = list of steps, step 0 is the first start:
   {"ranges": [[p, lo, hi]..] batches emitted (arguments reaching get_message_batch), "commits": [[p, offset]..],
    "deliv": [[p, lo, hi, [values]]..] batches reaching the consumer, "model_events": the base events of the Coq model
    this step corresponds to, "high": high watermarks after the step, "committed": committed offsets after the step}
"""
import logging
import os
import sys

HERE = os.path.dirname(os.path.abspath(__file__))
TOPIC = "t"
GROUP = "g"


def install_fake():
    fk = os.path.join(HERE, "fakes")
    if sys.path[0] != fk:
        if fk in sys.path:
            sys.path.remove(fk)
        sys.path.insert(0, fk)
    import confluent_kafka
    assert confluent_kafka.__file__.startswith(fk), confluent_kafka.__file__
    import streamz.sources as S

    class _NoSleepTime(object):
        """get_message_batch sleeps 0.1 s when poll() returns nothing; the fake always has the requested range, so
        reaching sleep means the source asked for offsets that do not exist: fail loudly instead of hanging."""
        def __getattr__(self, k):
            import time as _t
            return getattr(_t, k)

        @staticmethod
        def sleep(dt):
            raise RuntimeError("get_message_batch would block: requested offsets are not in the log")
    if not isinstance(S.time, _NoSleepTime):
        S.time = _NoSleepTime()
    return confluent_kafka


def value_of(p, off):
    return ("%d:%d" % (p, off)).encode()


class Run(object):
    def __init__(self, case):
        self.case = case
        self.ck = install_fake()
        self.B = self.ck.BROKER
        self.B.reset()
        self.loop = None
        self.steps = []
        self.cur = None
        self.errors = []

    # ---------------------------------------------------------------- broker side
    def produce(self, p, n):
        for _ in range(n):
            lo, hi = self.B.watermarks(TOPIC, p)
            self.B.produce(TOPIC, p, value_of(p, hi))

    # ---------------------------------------------------------------- one run of the source
    def start_run(self):
        import vloop
        import streamz.sources as S
        from streamz import Stream
        self.loop = vloop.fresh()
        self.batches = []        # this run: [p, lo, hi] in emission order
        self.arrived = []        # this run: index into batches, in order of arrival at the consumer
        self.done = set()
        self.held = {}           # hold: batch index -> metadata
        self.futs = []           # buffer: (batch index, future) outstanding
        run = self
        c = self.case
        orig_gmb = S.get_message_batch.__wrapped__ if hasattr(S.get_message_batch, "__wrapped__") else S.get_message_batch

        def gmb(kafka_params, topic, partition, keys, low, high, timeout=None):
            run.batches.append([partition, low, high])
            run.cur["ranges"].append([partition, low, high])
            vals = orig_gmb(kafka_params, topic, partition, keys, low, high, timeout=timeout)
            return (len(run.batches) - 1, vals)
        gmb.__wrapped__ = orig_gmb
        S.get_message_batch = gmb

        def build():
            params = {'bootstrap.servers': 'x', 'group.id': GROUP}
            if c.get("reset") is not None:
                params['auto.offset.reset'] = c["reset"]
            out = Stream.from_kafka_batched(TOPIC, params, poll_interval=1, npartitions=c.get("np"),
                                            refresh_partitions=bool(c.get("refresh")), max_batch_size=c["maxb"],
                                            asynchronous=True)
            self.out = out
            self.source = out.upstreams[0]

            def arrive(x):
                idx, vals = x
                p, lo, hi = run.batches[idx]
                run.arrived.append(idx)
                run.cur["deliv"].append([p, lo, hi, [v.decode() for v in vals]])
                return idx
            if c["sink"] == "sync":
                def sinkf(x):
                    idx = arrive(x)
                    run.done.add(idx)
                    run.cur["done_now"].append(idx)
                self.sink = out.sink(sinkf)
            elif c["sink"] == "hold":
                class Holder(Stream):
                    def update(hself, x, who=None, metadata=None):
                        idx = arrive(x)
                        hself._retain_refs(metadata)
                        run.held[idx] = metadata
                self.sink = Holder(out)
            elif c["sink"] == "buffer":
                def sinkf(x):
                    idx = arrive(x)
                    fut = run.loop.create_future()
                    run.futs.append((idx, fut))
                    return fut
                self.sink = out.buffer(8).sink(sinkf)
            elif c["sink"] == "slow":
                # no buffer: a waiting node (rate_limit(0)) directly in front of an asynchronous sink, so that the
                # source's own emit of a batch stays pending until the harness finishes that batch
                def sinkf(x):
                    idx = arrive(x)
                    fut = run.loop.create_future()
                    run.futs.append((idx, fut))
                    return fut
                self.sink = out.rate_limit(0).sink(sinkf)
            else:
                raise KeyError(c["sink"])
            self.source.start()
        self.loop.call_soon(self._guard(build))
        self.loop.settle()

    def _guard(self, f):
        def g():
            try:
                f()
            except Exception as e:      # construction/start errors are part of the observation
                self.errors.append(repr(e))
        return g

    def kill_run(self):
        import vloop
        import streamz.sources as S
        if self.loop is not None:
            try:
                self.source.stopped = True
            except Exception:
                pass
            vloop.dispose(self.loop)
            self.loop = None
        if hasattr(S.get_message_batch, "__wrapped__"):
            S.get_message_batch = S.get_message_batch.__wrapped__

    # ---------------------------------------------------------------- steps
    def begin(self, ev):
        self.cur = {"event": ev, "ranges": [], "commits": [], "deliv": [], "done_now": [], "model_events": []}
        self.ncalls = len(self.B.calls)

    def end(self):
        for cl in self.B.calls[self.ncalls:]:
            if cl[0] == "commit":
                self.cur["commits"].append([cl[2], cl[3]])
        np_ = self.B.npartitions(TOPIC)
        self.cur["high"] = [self.B.watermarks(TOPIC, p)[1] for p in range(np_)]
        self.cur["committed"] = [self.B.committed_offset(GROUP, TOPIC, p) for p in range(np_)]
        self.cur["positions"] = list(getattr(self.source, "positions", []) or [])
        self.cur["undone"] = [i for i in range(len(self.batches)) if i not in self.done]
        self.cur["nbatches"] = len(self.batches)
        self.steps.append(self.cur)

    def poll_events(self, n_before):
        """base model events of a poll step"""
        evs = [["Poll"]]
        if self.case["sink"] == "sync":
            evs += [["BatchDone", i] for i in self.cur["done_now"]]
        return evs

    def step(self, ev):
        self.begin(ev)
        k = ev[0]
        if k == "start":
            self.start_run()
            self.cur["model_events"] = self.poll_events(0)
        elif k == "produce":
            self.produce(ev[1], ev[2])
            self.cur["model_events"] = [["Produce", ev[1], ev[2]]]
        elif k == "addpart":
            self.B.add_partition(TOPIC, self.case.get("low", 0))
            self.cur["model_events"] = [["AddPartition"]]
        elif k == "poll":
            self.loop.advance(1)
            self.cur["model_events"] = self.poll_events(len(self.batches))
        elif k == "done":
            if self.case["sink"] == "hold":
                outstanding = sorted(self.held)
                if outstanding:
                    i = outstanding[ev[1] % len(outstanding)]
                    md = self.held.pop(i)
                    self.done.add(i)
                    self.cur["done_now"].append(i)
                    self.loop.call_soon(lambda: self.sink._release_refs(md))
                    self.cur["model_events"] = [["BatchDone", i]]
            elif self.case["sink"] in ("buffer", "slow"):
                if self.futs:
                    i, f = self.futs.pop(0)
                    self.done.add(i)
                    self.cur["done_now"].append(i)
                    self.loop.call_soon(lambda: f.set_result(None))
                    self.cur["model_events"] = [["BatchDone", i]]
            self.loop.settle()
        elif k == "crash":
            self.kill_run()
            self.start_run()
            self.cur["model_events"] = [["Crash"]] + self.poll_events(0)
        else:
            raise KeyError(k)
        self.end()


def run_case(case):
    logging.disable(logging.CRITICAL)
    r = Run(case)
    try:
        for _ in range(case["np0"]):
            r.B.add_partition(TOPIC, case.get("low", 0))
        for p, n in enumerate(case.get("pre", [])):
            r.produce(p, n)
        r.step(["start"])
        for ev in case["events"]:
            r.step(ev)
        return {"steps": r.steps, "errors": r.errors,
                "log": {str(p): [v.decode() for _, v in r.B.logs[(TOPIC, p)]] for p in range(r.B.npartitions(TOPIC))}}
    finally:
        r.kill_run()


def restart_probe(case, high, committed, max_polls=None):
    """Fresh process on a broker holding `high[p] - low` messages per partition and the given committed offsets:
    start, poll until a cycle emits nothing.  Returns the ranges emitted, in order."""
    logging.disable(logging.CRITICAL)
    c2 = dict(case, sink="sync", events=[], pre=[])
    r = Run(c2)
    low = case.get("low", 0)
    try:
        for p in range(len(high)):
            r.B.add_partition(TOPIC, low)
            r.produce(p, high[p] - low)
            if committed[p] != -1001:
                r.B.committed[(GROUP, TOPIC, p)] = committed[p]
        r.step(["start"])
        n = max_polls if max_polls is not None else sum(h - low for h in high) + 3
        quiet = 0
        for _ in range(n):
            r.step(["poll"])
            quiet = quiet + 1 if not r.steps[-1]["ranges"] else 0
            if quiet >= 2:
                break
        return {"ranges": [rg for st in r.steps for rg in st["ranges"]],
                "deliv": [d for st in r.steps for d in st["deliv"]], "errors": r.errors, "quiet": quiet >= 2}
    finally:
        r.kill_run()


if __name__ == "__main__":
    import json
    case = json.loads(sys.argv[1])
    o = run_case(case)
    for s in o["steps"]:
        print(json.dumps({k: s[k] for k in ("event", "ranges", "commits", "committed", "positions", "model_events")}))
    print(o["errors"])
