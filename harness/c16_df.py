"""C16 on the streaming-dataframe accumulators (oracle only): a batch on which the aggregation step RAISES.

The windowed / expanding / rolling / groupby aggregations are `accumulate` nodes whose function is streamz' own
(`window_accumulator`, `accumulator`, `rolling_accumulator`, ...).  If that function raises for a batch, C16 says: the
exception reaches the caller of emit, the node keeps the state it had before the call, and later batches are processed as
if the failing batch had not been offered.  A poison batch (a column of strings, on which `sum` cannot be added to a
number) is inserted at every position >= 1 of a short run; the later results must equal those of the run without it.
"""
import copy
import logging
import warnings

import numpy as np
import pandas as pd

logging.disable(logging.CRITICAL)

PIPES = {
    "window_n.sum": lambda d: d.window(n=3).x.sum(),
    "window_n.mean": lambda d: d.window(n=3).x.mean(),
    "window_n.var": lambda d: d.window(n=4).x.var(),
    "window_n.frame.sum": lambda d: d.window(n=3)[["x", "y"]].sum(),
    "window_t.sum": lambda d: d.window(value="3s").x.sum(),
    "window_t.count+sum": lambda d: d.window(value="2s").x.mean(),
    "expanding.sum": lambda d: d.expanding().x.sum(),
    "expanding.mean": lambda d: d.expanding().x.mean(),
    "reduction.sum": lambda d: d.x.sum(),
    "reduction.mean": lambda d: d.x.mean(),
    "rolling_n.sum": lambda d: d.rolling(2).x.sum(),
    "window_groupby.sum": lambda d: d.window(n=3).groupby("k").x.sum(),
    "groupby.sum": lambda d: d.groupby("k").x.sum(),
    "cumsum": lambda d: d.x.cumsum(),
}


def frame(start, xs, poison=False):
    idx = pd.to_datetime(list(range(start, start + len(xs))), unit="s")
    if poison:
        return pd.DataFrame({"x": ["a%d" % i for i in range(len(xs))], "y": [1.0] * len(xs), "k": [1] * len(xs)}, index=idx)
    return pd.DataFrame({"x": [float(v) for v in xs], "y": [float(v % 3) for v in xs], "k": [int(v) % 2 for v in xs]}, index=idx)


def canon(v):
    if isinstance(v, (pd.Series, pd.DataFrame)):
        return (type(v).__name__, [repr(i) for i in v.index.tolist()], np.asarray(v, dtype=object).tolist().__repr__())
    if isinstance(v, float) and v != v:
        return "nan"
    return repr(v)


def state_repr(st):
    if isinstance(st, dict):
        return {k: state_repr(v) for k, v in sorted(st.items())}
    if isinstance(st, (list, tuple)) or type(st).__name__ == "deque":
        return [state_repr(v) for v in st]
    return canon(st)


def acc_node(stream):
    from streamz.core import accumulate
    n = stream
    while not isinstance(n, accumulate):
        if not n.upstreams:
            return None
        n = n.upstreams[0]
    return n


def run(pipe, batches):
    """-> list per batch of ("ok", result) | ("exc", class name, state unchanged?)"""
    from streamz import Stream
    from streamz.dataframe import DataFrame
    src = Stream()
    sdf = DataFrame(src, example=frame(0, [1]).iloc[:0])
    out = PIPES[pipe](sdf)
    node = acc_node(out.stream)
    L = out.stream.sink_to_list()
    res = []
    for b in batches:
        n0 = len(L)
        before = state_repr(node.state) if node is not None else None
        try:
            src.emit(b)
        except Exception as e:      # noqa
            after = state_repr(node.state) if node is not None else None
            res.append(("exc", type(e).__name__, before == after))
            continue
        res.append(("ok", canon(L[-1]) if len(L) > n0 else None))
    return res


def cases(rng, n):
    out = []
    pipes = list(PIPES)
    for i in range(n):
        pipe = pipes[i % len(pipes)]
        nb = rng.randint(3, 5)
        sizes = [rng.choice([1, 2, 2, 3]) for _ in range(nb)]
        vals = [[rng.randint(0, 6) for _ in range(s)] for s in sizes]
        pos = rng.randint(1, nb - 1)
        out.append({"pipe": pipe, "batches": vals, "poison_at": pos, "poison_len": rng.choice([1, 2])})
    return out


def check(case):
    """-> list of (signature, message)"""
    with warnings.catch_warnings():
        warnings.simplefilter("ignore")
        good, start = [], 0
        for v in case["batches"]:
            good.append(frame(start, v))
            start += len(v)
        p = case["poison_at"]
        # the poison batch is stamped like the batch it precedes (it is never part of the reference run)
        t_p = sum(len(v) for v in case["batches"][:p])
        with_p = good[:p] + [frame(t_p, [0] * case["poison_len"], poison=True)] + good[p:]
        try:
            ref = run(case["pipe"], good)
            got = run(case["pipe"], with_p)
        except Exception as e:      # noqa  (construction failed: not what is judged here)
            return [("C16/dataframe/harness", "driver failed: %r" % (e,))]
    if any(r[0] != "ok" for r in ref):
        return []
    if got[p][0] != "exc":
        return []           # this aggregation accepts the poison batch: nothing to judge
    out = []
    if not got[p][2]:
        out.append(("C16/dataframe/state-changed-by-failing-batch/%s" % case["pipe"].split(".")[0],
                    "%s: the aggregation raised %s for batch %d but the accumulate node's state is not what it was before that call" % (case["pipe"], got[p][1], p)))
    rest = got[:p] + got[p + 1:]
    for j, (a, b) in enumerate(zip(rest, ref)):
        if a != b:
            out.append(("C16/dataframe/later-batches-disturbed/%s" % case["pipe"].split(".")[0],
                        "%s: after a batch on which the aggregation raised (%s, position %d), batch %d gives %s; without the failing batch it gives %s"
                        % (case["pipe"], got[p][1], p, j, str(a)[:120], str(b)[:120])))
            break
    return out


if __name__ == "__main__":
    import random, sys, json
    rng = random.Random(1)
    n = 0
    for c in cases(rng, int(sys.argv[1]) if len(sys.argv) > 1 else 140):
        r = check(c)
        n += 1
        if r:
            print(r[0], json.dumps(c))
    print(n, "cases")
