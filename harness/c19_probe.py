"""C19 run-through probe, executed in a FRESH python process (so a background-thread start is observable):
build a small pipeline inside a running loop, push one element through, report the thread every sink callback ran on.
usage: python c19_probe.py '<json config>'  -> one JSON line"""
import asyncio, json, sys, threading


def main(cfg):
    from tornado.ioloop import IOLoop
    import streamz
    from streamz import Stream
    res = {"cfg": cfg, "sink_threads": [], "error": None}

    async def run():
        cur = IOLoop.current()
        before = {t.ident for t in threading.enumerate()}
        seen = []

        def sink(x):
            seen.append(threading.current_thread() is threading.main_thread())
        a = cfg["asynchronous"]
        kw = {} if a is None else {"asynchronous": a}
        kind = cfg["kind"]
        if kind == "from_iterable":
            s = Stream.from_iterable([1, 2], **kw)
            node = s
            s.sink(sink)
            res["thread_started_at_construction"] = len({t.ident for t in threading.enumerate()} - before) > 0
            s.start()
        elif kind == "from_periodic":
            s = Stream.from_periodic(lambda: 1, 0.01, **kw)
            node = s
            s.sink(sink)
            res["thread_started_at_construction"] = len({t.ident for t in threading.enumerate()} - before) > 0
            s.start()
        elif kind == "chain":
            # from_iterable -> <mid> -> sink, started the documented way: start() on the LAST node (Stream.start walks
            # upstream), called from code that itself runs inside an event loop.  Every callback of the pipeline (the
            # mapped function, the sink) must run on the pipeline's loop.
            s = Stream.from_iterable([1, 2, 3], **kw)
            mid = cfg["mid"]
            fthreads = []
            if mid == "map_async":
                async def f(x):
                    fthreads.append(threading.current_thread() is threading.main_thread())
                    return x
                node = s.map_async(f)
            elif mid == "map":
                node = s.map(lambda x: x)
            else:
                margs = {"buffer": (2,), "timed_window": (0.01,), "delay": (0.01,), "rate_limit": (0.01,), "latest": (),
                         "partition": (1,), "timed_window_unique": (0.01,)}[mid]
                node = s.timed_window_unique(0.01, key=lambda x: x) if mid == "timed_window_unique" else getattr(s, mid)(*margs)
            last = node.sink(sink)
            res["thread_started_at_construction"] = len({t.ident for t in threading.enumerate()} - before) > 0
            (last if cfg.get("start_via") == "last" else s).start()
            for _ in range(100):
                if seen:
                    break
                await asyncio.sleep(0.01)
            await asyncio.sleep(0.05)
            res["func_on_main_thread"] = list(fthreads[:3])
            wt = getattr(node, "work_task", None)
            if wt is not None and wt[1] is not None and hasattr(wt[1], "get_loop"):
                res["worker_on_node_loop"] = wt[1].get_loop() is node.loop.asyncio_loop
        else:
            root = Stream(**({} if cfg.get("root_async") is None else {"asynchronous": cfg["root_async"]}))
            args = {"buffer": (2,), "timed_window": (0.01,), "delay": (0.01,), "rate_limit": (0.01,), "latest": (),
                    "partition": (1,), "timed_window_unique": (0.01,)}[kind] if kind != "map_async" else None
            if kind == "map_async":
                async def f(x):
                    return x
                node = root.map_async(f)
            elif kind == "timed_window_unique":
                node = root.timed_window_unique(0.01, key=lambda x: x, **kw)
            else:
                node = getattr(root, kind)(*args, **kw)
            node.sink(sink)
            res["thread_started_at_construction"] = len({t.ident for t in threading.enumerate()} - before) > 0
            if root.asynchronous:
                await root.emit(1)
            else:
                await asyncio.get_running_loop().run_in_executor(None, root.emit, 1)
        for _ in range(100):
            if seen:
                break
            await asyncio.sleep(0.01)
        res["loop_is_current"] = node.loop is cur
        res["asynchronous"] = node.asynchronous
        res["sink_on_main_thread"] = list(seen[:3])
        res["threads_after"] = len(threading.enumerate())
        if hasattr(node, "stop"):
            try:
                node.stop()
            except Exception:
                pass
    try:
        asyncio.run(asyncio.wait_for(run(), 20))
    except Exception as e:
        res["error"] = "%s: %s" % (type(e).__name__, e)
    print(json.dumps(res))


if __name__ == "__main__":
    main(json.loads(sys.argv[1]))
