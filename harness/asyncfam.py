"""Asynchronous single-node family: drives one REAL asynchronous streamz node between controlled
source(s) and a controlled sink on the stepped virtual loop.

case = {"node": {...spec...}, "sink": "ctl" | "sync", "actions": [...]}
actions: ["emit", src, val_json, [[id, has_ref]...]]   source.emit(x, metadata=..) (awaitable tracked)
         ["ack"]            resolve the oldest outstanding sink future
         ["ackfail"]        fail the oldest outstanding sink future
         ["task", k]        complete the k-th outstanding map_async task (0 = oldest)
         ["adv", ticks]     advance virtual time
         ["detach"] / ["attach"]   source.disconnect(node) / source.connect(node) (no emit in between; oracle only)
Observation per action: {"now": ticks, "deliv": [[tick, val, [[id,ref]..]]...], "done": [emit ids], "failed": [emit ids],
                         "counts": [...], "fired": [...]}
"""
import logging

import vloop
from symbols import val_from_json, val_to_json, keyfn, coq_val, coq_sym, z
from vloop import TICKS_PER_S

logging.disable(logging.CRITICAL)


def failing(fn, bad):
    """the user function `fn`, raising for the (integer) elements listed in `bad`"""
    if not bad:
        return fn
    bad = set(bad)

    def g(x):
        if isinstance(x, int) and x in bad:
            raise ValueError("user function fails for %r" % (x,))
        return fn(x)
    return g


class Run:
    def __init__(self, case):
        self.case = case
        self.loop = vloop.fresh()
        self.deliv = []
        self.outstanding = []      # sink futures not yet resolved
        self.tasks = []            # map_async task futures not yet resolved: (x, fut)
        self.done = []
        self.failed = []
        self.fired = []
        self.nemit = 0
        self.counters = {}
        self.sources = []
        self.node = None
        self.started = []
        self.ndeliv = 0
        self.dstack = []
        self.emit_t = []           # [eid, ticks] of emits made inside a mix (the clock can move inside the step)
        self.failacks = []         # delivery indices whose consumer future was failed
        self.reacts = []           # [eid, value, ticks] of emits made by the consumer inside a hand-over
        self.mixacks = []          # per ack: global index of the delivery whose future was resolved (-1: none)
        self.mixtasks = []         # per "task" inside a mix: the job completed (None if there was none)

    def build(self):
        from streamz import Stream
        import streamz
        from tornado.ioloop import IOLoop
        sp = self.case["node"]
        k = sp["k"]
        sec = lambda t: t / TICKS_PER_S

        def ival(t):
            # the interval as a number of seconds, as a duration string ("187500us") or as a COMPOUND duration string
            # ("125ms 62500us"): all three name the same interval
            us = 1000000 // TICKS_PER_S
            if sp.get("ispec") == "str":
                return "%dus" % (t * us)
            if sp.get("ispec") == "compound" and t >= 2:
                return "%gms %dus" % ((t - 1) * us / 1000.0, us)
            return sec(t)
        nsrc = 2 if k in ("zip", "zip_latest") else (3 if k == "zip3" else 1)
        self.sources = [Stream(asynchronous=True) for _ in range(nsrc)]
        s = self.sources[0]
        if k == "buffer":
            n = s.buffer(sp["n"])
        elif k == "delay":
            n = s.delay(ival(sp["interval"]))
        elif k == "rate_limit":
            n = s.rate_limit(ival(sp["interval"]))
        elif k == "timed_window":
            n = s.timed_window(ival(sp["interval"]))
        elif k == "timed_window_unique":
            n = s.timed_window_unique(ival(sp["interval"]), key=failing(keyfn(sp["key"]), sp.get("userfail")), keep=sp["keep"])
        elif k == "partition":
            kw = {}
            if sp.get("key") is not None:
                kw["key"] = failing(keyfn(sp["key"]), sp.get("userfail"))
            n = s.partition(sp["n"], timeout=sec(sp["timeout"]) if sp.get("timeout") is not None else None, **kw)
        elif k == "zip":
            n = streamz.zip(self.sources[0], self.sources[1], maxsize=sp["maxsize"])
        elif k == "zip3":
            n = streamz.zip(self.sources[0], self.sources[1], self.sources[2], maxsize=sp["maxsize"])
        elif k == "map_async":
            run = self

            async def work(x):
                if x in (sp.get("userfail") or []):
                    raise ValueError("mapped coroutine fails for %r" % (x,))
                fut = run.loop.create_future()
                run.tasks.append((x, fut))
                run.started.append(x)
                return await fut
            if sp.get("failmode") == "call":
                # a plain function handing back an awaitable: for the bad elements it raises synchronously, at call
                # time, before any coroutine exists
                def fetch(x):
                    if x in (sp.get("userfail") or []):
                        raise ValueError("mapped function fails at call time for %r" % (x,))
                    return work(x)
                n = s.map_async(fetch, parallelism=sp["parallelism"])
            else:
                n = s.map_async(work, parallelism=sp["parallelism"])
        elif k == "latest":
            n = s.latest()
        elif k == "plain":
            n = s.map(lambda x: x)
        elif k == "flatten":
            n = s.flatten()
        elif k == "zip_latest":
            n = self.sources[0].zip_latest(self.sources[1])      # lossless input: source 0
        else:
            raise KeyError(k)
        self.node = n
        run = self
        mode = self.case.get("sink", "ctl")
        if mode == "ctl":
            def sinkf(x, metadata=None):
                fut = run.loop.create_future()
                fut._didx = run.dstack[-1] if run.dstack else run.ndeliv - 1
                run.outstanding.append(fut)
                return fut
        elif mode == "coro":
            # a native coroutine as consumer: the sink returns a coroutine OBJECT
            # (its body starts only when the node's caller schedules it: the delivery index is taken at call time)
            def sinkf(x, metadata=None):
                didx = run.dstack[-1] if run.dstack else run.ndeliv - 1

                async def body():
                    fut = run.loop.create_future()
                    fut._didx = didx
                    run.outstanding.append(fut)
                    await fut
                return body()
        elif mode == "tornado":
            # a tornado-style coroutine as consumer
            from tornado import gen

            @gen.coroutine
            def sinkf(x, metadata=None):
                fut = run.loop.create_future()
                fut._didx = run.dstack[-1] if run.dstack else run.ndeliv - 1
                run.outstanding.append(fut)
                yield fut
        else:
            def sinkf(x, metadata=None):
                return None
        react = {int(k_): v_ for k_, v_ in (self.case.get("react") or {}).items()}
        if react:
            # a consumer that, on receiving certain elements, synchronously emits follow-up elements into the source
            # BEFORE it returns (inside the hand-over call of the node that delivered to it)
            inner = sinkf

            def sinkf(x, metadata=None, inner=inner):
                for y in react.get(x, []) if isinstance(x, int) else []:
                    run.react_emit(y)
                return inner(x, metadata=metadata)
        self.sink = n.sink(sinkf)
        orig = self.sink.update

        def wrapped(x, who=None, metadata=None):
            mids = [(m['id'], 'ref' in m) if isinstance(m, dict) and 'id' in m else (999999, False) for m in (metadata or [])]
            run.deliv.append([run.loop.ticks(), x, mids])
            run.ndeliv += 1
            run.dstack.append(run.ndeliv - 1)      # (a reacting consumer makes nested deliveries inside this call)
            try:
                return orig(x, who=who, metadata=metadata)
            finally:
                run.dstack.pop()
        self.sink.update = wrapped

    def counter(self, i):
        from streamz.core import RefCounter
        if i not in self.counters:
            class L:
                @staticmethod
                def add_callback(cb, *a, **k):
                    cb(*a, **k)
            self.counters[i] = RefCounter(initial=0, cb=(lambda i=i: self.fired.append(i)), loop=L())
        return self.counters[i]

    def react_emit(self, y):
        eid = self.nemit
        self.nemit += 1
        self.reacts.append([eid, y, self.loop.ticks()])
        try:
            fut = self.sources[0].emit(y)
        except Exception:
            self.failed.append(eid)
            return

        async def waiter():
            try:
                await fut
                self.done.append(eid)
            except Exception:
                self.failed.append(eid)
        self.loop.create_task(waiter())

    def thunk(self, act):
        """the immediate effect of a sub-action of a "mix" (run inside a loop callback)"""
        kind = act[0]
        if kind == "emit":
            _, src, vj, mdj = act
            md = []
            for (i, r) in mdj:
                d = {"id": i}
                if r:
                    d["ref"] = self.counter(i)
                md.append(d)
            eid = self.nemit
            self.nemit += 1

            def go():
                self.emit_t.append([eid, self.loop.ticks()])
                try:
                    fut = self.sources[src].emit(val_from_json(vj), metadata=md if md else None)
                except Exception:
                    self.failed.append(eid)
                    return

                async def waiter():
                    try:
                        await fut
                        self.done.append(eid)
                    except Exception:
                        self.failed.append(eid)
                self.loop.create_task(waiter())
            return go
        if kind == "block":
            # the current loop callback takes act[1] ticks of (virtual) time: timers that become due meanwhile have
            # NOT run when the following sub-actions of the same callback happen
            def go():
                self.loop._vt += act[1] / TICKS_PER_S
            return go
        if kind == "ack":
            def go():
                if self.outstanding:
                    f = self.outstanding.pop(0)
                    f.set_result(None)
                    self.mixacks.append(f._didx)
                else:
                    self.mixacks.append(-1)
            return go
        if kind == "task":
            k = act[1]

            def go():
                if k < len(self.tasks):
                    x, f = self.tasks.pop(k)
                    f.set_result(x * 10 if isinstance(x, int) else x)
                    self.mixtasks.append(x)
                else:
                    self.mixtasks.append(None)
            return go
        raise KeyError(kind)

    def do(self, act):
        kind = act[0]
        if kind == "emit":
            _, src, vj, mdj = act
            md = []
            for (i, r) in mdj:
                d = {"id": i}
                if r:
                    d["ref"] = self.counter(i)
                md.append(d)
            eid = self.nemit
            self.nemit += 1

            def go():
                try:
                    fut = self.sources[src].emit(val_from_json(vj), metadata=md if md else None)
                except Exception:
                    self.failed.append(eid)
                    return
                import asyncio

                async def waiter():
                    try:
                        await fut
                        self.done.append(eid)
                    except Exception:
                        self.failed.append(eid)
                self.loop.create_task(waiter())
            self.loop.call_soon(go)
            self.loop.settle()
        elif kind == "burst":
            # several emits inside ONE loop iteration (callbacks scheduled by the first have not run yet)
            _, src, vals = act
            eids = []
            for _v in vals:
                eids.append(self.nemit)
                self.nemit += 1

            def go_all():
                for eid, vj in zip(eids, vals):
                    try:
                        fut = self.sources[src].emit(val_from_json(vj))
                    except Exception:
                        self.failed.append(eid)
                        continue

                    async def waiter(fut=fut, eid=eid):
                        try:
                            await fut
                            self.done.append(eid)
                        except Exception:
                            self.failed.append(eid)
                    self.loop.create_task(waiter())
            self.loop.call_soon(go_all)
            self.loop.settle()
        elif kind == "chain":
            # each emit schedules the next one with call_soon when it returns: the next arrival lands between the
            # callbacks the previous one scheduled (e.g. after a notify ran but before the woken coroutine resumed)
            _, src, vals = act
            eids = []
            for _v in vals:
                eids.append(self.nemit)
                self.nemit += 1

            def go_k(k):
                try:
                    fut = self.sources[src].emit(val_from_json(vals[k]))
                except Exception:
                    self.failed.append(eids[k])
                    fut = None
                if fut is not None:
                    async def waiter():
                        try:
                            await fut
                            self.done.append(eids[k])
                        except Exception:
                            self.failed.append(eids[k])
                    self.loop.create_task(waiter())
                if k + 1 < len(vals):
                    self.loop.call_soon(go_k, k + 1)
            self.loop.call_soon(go_k, 0)
            self.loop.settle()
        elif kind == "seq":
            # several emits in CONSECUTIVE loop callbacks: anything the first schedules with add_callback runs
            # after the later emits have already been made
            _, src, vals = act
            import asyncio
            for vj in vals:
                eid = self.nemit
                self.nemit += 1

                def go1(vj=vj, eid=eid):
                    try:
                        fut = self.sources[src].emit(val_from_json(vj))
                    except Exception:
                        self.failed.append(eid)
                        return

                    async def waiter():
                        try:
                            await fut
                            self.done.append(eid)
                        except Exception:
                            self.failed.append(eid)
                    self.loop.create_task(waiter())
                self.loop.call_soon(go1)
            self.loop.settle()
        elif kind == "mix":
            # several sub-actions (emit / ack / task) WITHOUT letting the loop go quiescent in between:
            # gap -1: all inside one loop callback; gap 0: consecutive callbacks scheduled up front;
            # gap g >= 1: each sub-action is scheduled g loop iterations after the previous one returned
            _, gap, subs = act
            thunks = [self.thunk(sa) for sa in subs]
            if gap < 0:
                self.loop.call_soon(lambda: [t() for t in thunks])
            elif gap == 0:
                for t in thunks:
                    self.loop.call_soon(t)
            else:
                def go_k(k):
                    thunks[k]()
                    if k + 1 < len(thunks):
                        hop(gap - 1, k + 1)

                def hop(n, k):
                    if n <= 0:
                        self.loop.call_soon(go_k, k)
                    else:
                        self.loop.call_soon(hop, n - 1, k)
                self.loop.call_soon(go_k, 0)
            self.loop.settle()
        elif kind == "ack":
            if self.outstanding:
                f = self.outstanding.pop(0)
                self.mixacks.append(f._didx)
                self.loop.call_soon(lambda: f.set_result(None))
            self.loop.settle()
        elif kind == "ackfail":
            if self.outstanding:
                f = self.outstanding.pop(0)
                self.mixacks.append(f._didx)
                self.failacks.append(f._didx)
                self.loop.call_soon(lambda: f.set_exception(RuntimeError("sink failed")))
            self.loop.settle()
        elif kind == "task":
            k = act[1]
            if k < len(self.tasks):
                x, f = self.tasks.pop(k)
                self.loop.call_soon(lambda: f.set_result(x * 10 if isinstance(x, int) else x))
            self.loop.settle()
        elif kind == "adv":
            self.loop.advance(act[1] / TICKS_PER_S)
        elif kind in ("detach", "attach"):
            # the node's feed is taken away (source.disconnect(node)) and later given back (source.connect(node)) while
            # the node may be holding elements / have a consumer busy: what it received before must still come out
            def go():
                attached = any(d is self.node for d in list(self.sources[0].downstreams))
                if kind == "detach" and attached:
                    self.sources[0].disconnect(self.node)
                elif kind == "attach" and not attached:
                    self.sources[0].connect(self.node)
            self.loop.call_soon(go)
            self.loop.settle()
        else:
            raise KeyError(kind)

    def observe(self, nrc):
        o = {"now": self.loop.ticks(), "deliv": self.deliv, "done": sorted(self.done), "failed": sorted(self.failed),
             "counts": [self.counters[i].count if i in self.counters else 0 for i in range(nrc)],
             "fired": list(self.fired), "nout": len(self.outstanding), "ntasks": len(self.tasks),
             "started": list(self.started), "mixacks": self.mixacks, "mixtasks": self.mixtasks, "reacts": self.reacts, "failacks": self.failacks, "emit_t": self.emit_t}
        self.emit_t = []
        self.failacks = []
        self.reacts = []
        self.mixacks = []
        self.mixtasks = []
        self.deliv = []
        self.done = []
        self.failed = []
        self.started = []
        return o


def nrc_of(case):
    m = -1
    for a in case["actions"]:
        for sa in ([a] if a[0] == "emit" else (a[2] if a[0] == "mix" else [])):
            if sa[0] != "emit":
                continue
            for (i, r) in sa[3]:
                m = max(m, i)
    return m + 1


def run_case(case):
    r = Run(case)
    nrc = nrc_of(case)
    try:
        built = []
        r.loop.call_soon(lambda: built.append(r.build()))
        r.loop.settle()
        obs = [r.observe(nrc)]         # observation 0: after construction (timed nodes emit at once)
        for act in case["actions"]:
            r.do(act)
            obs.append(r.observe(nrc))
        return obs
    finally:
        try:
            r.sink.destroy()
        except Exception:
            pass
        vloop.dispose(r.loop)


if __name__ == "__main__":
    import json
    import sys
    case = json.loads(sys.argv[1])
    for o in run_case(case):
        print(o)
