"""Acceptance run of the aggregation translator (harness/gen_aggs.py) and its bridges (Base/BridgeAggs*.v).

A list of edits of streamz/dataframe/aggregations.py - HARMFUL ones (the behaviour of an aggregation changes) and
HARMLESS ones (the same function written differently) - is applied, one at a time, to the text of the source under test
(VERIF_REPO; the checkout itself is never touched: the edited text is translated in memory).  For each edit:
  1. the edited module is loaded next to the original and both are driven over a fixed set of batch sequences (Series and
     DataFrames, empty / all-NaN / column-less batches, on_new, on_old, accumulator, diff_expanding): `same` / `differs`.
     This is the ground truth for the classification - a harmful edit must differ somewhere, a harmless one nowhere;
  2. gen_aggs translates the edited text; a KernelError is verdict `translator`;
  3. otherwise the generated KA_*.v and verbatim copies of the bridge files (only their `Require` of the generated modules
     points to the scratch directory) are compiled under build/aggs_acceptance/<id>/: the first lemma that no longer
     checks is verdict `bridge <lemma>`; if everything compiles the verdict is `quiet`.
Expected: harmful => translator or bridge; harmless => quiet.  Exit status 0 iff every edit meets its expectation.
Nothing is written outside build/; the scratch directories are removed at the end (kept with --keep).

Usage: aggs_acceptance.py [--keep] [--no-behaviour] [id ...]"""
import ast
import concurrent.futures
import math
import os
import re
import shutil
import subprocess
import sys
import types
import warnings

sys.path.insert(0, os.path.dirname(os.path.abspath(__file__)))
import common
import gen_aggs
import gen_kernels

REPO = gen_kernels.REPO
SRC = os.path.join(REPO, "streamz", "dataframe", "aggregations.py")
SCRATCH = os.path.join(common.BUILD, "aggs_acceptance")
BRIDGES = ["BridgeAggs", "BridgeAggsWindow", "BridgeAggsVec", "BridgeAggsIloc"]

# ---------------------------------------------------------------------------------------------------------------- edits
SUM_NEW = """        if len(new):
            result = acc + new.sum()
        else:
            result = acc
        return result, result
"""
MEAN_NEW_IF = """        if len(new):
            totals = totals + new.sum()
            counts = counts + new.count()
        return (totals, counts), _divide(totals, counts)
"""
MEAN_OLD_IF = """        if len(old):
            totals = totals - old.sum()
            counts = counts - old.count()
        return (totals, counts), _divide(totals, counts)
"""
DIVIDE = """    if isinstance(counts, Number) and counts == 0:
        return np.nan
    return totals / counts
"""
COMPUTE = """        if isinstance(n, Number) and n == 0:
            return np.nan
        result = (x2 / n) - (x / n) ** 2
        if self.ddof != 0:
            result = result * n / (n - self.ddof)
        return result
"""
VAR_NEW = """        x, x2, n = acc
        if len(new):
            x = x + new.sum()
            x2 = x2 + (new ** 2).sum()
            n = n + new.count()

        return (x, x2, n), self._compute_result(x, x2, n)
"""
VAR_OLD = """        x, x2, n = acc
        if len(new):
            x = x - new.sum()
            x2 = x2 - (new ** 2).sum()
            n = n - new.count()

        return (x, x2, n), self._compute_result(x, x2, n)
"""

ILOC = """        while n > 0:
            if len(dfs[0]) <= n:
                df = dfs.popleft()
                old.append(df)
                n -= len(df)
            else:
                old.append(dfs[0].iloc[:n])
                dfs[0] = dfs[0].iloc[n:]
                n = 0
"""

# (id, kind, what, [(old text, new text)])      every old text must occur exactly once
EDITS = [
    # ------------------------------------------------------------------------------------------------------ harmless
    ("h01", "harmless", "Sum.on_new: local renamed", [(SUM_NEW, """        if len(new):
            total = acc + new.sum()
        else:
            total = acc
        return total, total
""")]),
    ("h02", "harmless", "Size.on_new: `acc += ...` instead of a new local (acc is a number on both paths)",
     [("        result = acc + new.size\n        return result, result", "        acc += new.size\n        return acc, acc")]),
    ("h03", "harmless", "Sum.on_new: operands of + swapped", [("result = acc + new.sum()", "result = new.sum() + acc")]),
    ("h04", "harmless", "Sum.on_old: a temporary for old.sum()",
     [("        result = acc - old.sum()", "        s = old.sum()\n        result = acc - s")]),
    ("h05", "harmless", "Sum.on_new: test inverted, branches swapped", [(SUM_NEW, """        if not len(new):
            result = acc
        else:
            result = acc + new.sum()
        return result, result
""")]),
    ("h06", "harmless", "Mean.on_new: `len(new) > 0` for `len(new)`", [(MEAN_NEW_IF, MEAN_NEW_IF.replace("if len(new):", "if len(new) > 0:"))]),
    ("h07", "harmless", "Sum.on_new: early return for the empty batch", [(SUM_NEW, """        if len(new) == 0:
            return acc, acc
        result = acc + new.sum()
        return result, result
""")]),
    ("h08", "harmless", "Mean.on_new: _divide written out in place", [(MEAN_NEW_IF, """        if len(new):
            totals = totals + new.sum()
            counts = counts + new.count()
        if isinstance(counts, Number) and counts == 0:
            res = np.nan
        else:
            res = totals / counts
        return (totals, counts), res
""")]),
    ("h09", "harmless", "_divide: nested ifs for `and`", [(DIVIDE, """    if isinstance(counts, Number):
        if counts == 0:
            return np.nan
    return totals / counts
""")]),
    ("h10", "harmless", "_divide: a conditional expression", [(DIVIDE, """    return np.nan if (isinstance(counts, Number) and counts == 0) else totals / counts
""")]),
    ("h11", "harmless", "Var._compute_result: (x / n) * (x / n) for (x / n) ** 2", [(COMPUTE, COMPUTE.replace("(x / n) ** 2", "(x / n) * (x / n)"))]),
    ("h12", "harmless", "Var._compute_result: n * result for result * n", [(COMPUTE, COMPUTE.replace("result * n / (n - self.ddof)", "n * result / (n - self.ddof)"))]),
    ("h13", "harmless", "Var.on_new: (new * new).sum() for (new ** 2).sum()", [(VAR_NEW, VAR_NEW.replace("(new ** 2).sum()", "(new * new).sum()"))]),
    ("h14", "harmless", "Mean.on_new: the batch statistics bound first, by a tuple assignment", [(MEAN_NEW_IF, """        s, c = new.sum(), new.count()
        if len(new):
            totals = totals + s
            counts = counts + c
        return (totals, counts), _divide(totals, counts)
""")]),
    ("h15", "harmless", "Sum.on_old: -old.sum() + acc", [("        result = acc - old.sum()", "        result = -old.sum() + acc")]),
    ("h16", "harmless", "Var._compute_result: `0 == n`, `not self.ddof == 0`",
     [(COMPUTE, COMPUTE.replace("n == 0", "0 == n").replace("if self.ddof != 0:", "if not self.ddof == 0:"))]),
    ("h17", "harmless", "Mean.on_old: `if len(old) == 0: pass else: ...`", [(MEAN_OLD_IF, """        if len(old) == 0:
            pass
        else:
            totals = totals - old.sum()
            counts = counts - old.count()
        return (totals, counts), _divide(totals, counts)
""")]),
    ("h18", "harmless", "Var.on_new: the state tuple through a local", [(VAR_NEW, VAR_NEW.replace(
        "        return (x, x2, n), self._compute_result(x, x2, n)", "        state = (x, x2, n)\n        return state, self._compute_result(x, x2, n)"))]),
    ("h19", "harmless", "Var._compute_result: early return for ddof == 0", [(COMPUTE, """        if isinstance(n, Number) and n == 0:
            return np.nan
        result = (x2 / n) - (x / n) ** 2
        if self.ddof == 0:
            return result
        return result * n / (n - self.ddof)
""")]),
    ("h20", "harmless", "Size.on_new: operands of + swapped", [("result = acc + new.size", "result = new.size + acc")]),
    ("h21", "harmless", "Mean.initial: two assignments for the tuple assignment",
     [("        s, c = new.sum(), new.count()\n        if isinstance(s, Number):", "        s = new.sum()\n        c = new.count()\n        if isinstance(s, Number):")]),
    ("h22", "harmless", "Count.on_old: acc + (-old.count())", [("result = acc - old.count()", "result = acc + (-old.count())")]),
    ("h23", "harmless", "accumulator: `is not None` with the branches swapped", [("""    if acc is None:
        acc = agg.initial(new)
    return agg.on_new(acc, new)""", """    if acc is not None:
        state = acc
    else:
        state = agg.initial(new)
    return agg.on_new(state, new)""")]),
    ("h24", "harmless", "diff_expanding: `len(new) != 0`", [("""    dfs = deque(dfs)
    if len(new) > 0:
        dfs.append(new)
    return dfs, []""", """    dfs = deque(dfs)
    if len(new) != 0:
        dfs.append(new)
    return dfs, []""")]),
    ("h25", "harmless", "Var.on_old: parameters and locals renamed", [(VAR_OLD, """        sx, sxx, cnt = acc
        if len(new):
            sx = sx - new.sum()
            sxx = sxx - (new ** 2).sum()
            cnt = cnt - new.count()

        return (sx, sxx, cnt), self._compute_result(sx, sxx, cnt)
""")]),
    ("h26", "harmless", "diff_iloc: `while 0 < n`", [(ILOC, ILOC.replace("while n > 0:", "while 0 < n:"))]),
    ("h27", "harmless", "diff_iloc: `n = n - len(df)`", [(ILOC, ILOC.replace("n -= len(df)", "n = n - len(df)"))]),
    ("h28", "harmless", "diff_iloc: `n >= len(dfs[0])`", [(ILOC, ILOC.replace("if len(dfs[0]) <= n:", "if n >= len(dfs[0]):"))]),
    ("h29", "harmless", "diff_iloc: local renamed, length taken before the pop", [(ILOC, """        while n > 0:
            if len(dfs[0]) <= n:
                k = len(dfs[0])
                head = dfs.popleft()
                old.append(head)
                n -= k
            else:
                old.append(dfs[0].iloc[:n])
                dfs[0] = dfs[0].iloc[n:]
                n = 0
""")]),
    ("h30", "harmless", "diff_iloc: a local for the oldest frame in the slicing branch", [(ILOC, """        while n > 0:
            if len(dfs[0]) <= n:
                df = dfs.popleft()
                old.append(df)
                n -= len(df)
            else:
                first = dfs[0]
                old.append(first.iloc[:n])
                dfs[0] = first.iloc[n:]
                n = 0
""")]),
    # ------------------------------------------------------------------------------------------------------ harmful
    ("m01", "harmful", "Sum.on_old adds instead of subtracting", [("result = acc - old.sum()", "result = acc + old.sum()")]),
    ("m02", "harmful", "Count.on_old: len(old) for old.count() (NaN rows counted)", [("result = acc - old.count()", "result = acc - len(old)")]),
    ("m03", "harmful", "Count.on_new: new.size for new.count()", [("result = acc + new.count()", "result = acc + new.size")]),
    ("m04", "harmful", "Size.on_new: new.count() for new.size", [("result = acc + new.size", "result = acc + new.count()")]),
    ("m05", "harmful", "Mean.on_new: state returned as (counts, totals)", [(MEAN_NEW_IF, MEAN_NEW_IF.replace("return (totals, counts),", "return (counts, totals),"))]),
    ("m06", "harmful", "Mean.on_old returns the old state", [(MEAN_OLD_IF, MEAN_OLD_IF.replace("return (totals, counts),", "return acc,"))]),
    ("m07", "harmful", "_divide: 0.0 instead of NaN for no values", [(DIVIDE, DIVIDE.replace("return np.nan", "return 0.0"))]),
    ("m08", "harmful", "_divide: guard tests counts == 1", [(DIVIDE, DIVIDE.replace("counts == 0", "counts == 1"))]),
    ("m09", "harmful", "Var._compute_result: x2 / (n - 1)", [(COMPUTE, COMPUTE.replace("(x2 / n)", "(x2 / (n - 1))"))]),
    ("m10", "harmful", "Var._compute_result: ddof ignored in the denominator (n - 1)", [(COMPUTE, COMPUTE.replace("(n - self.ddof)", "(n - 1)"))]),
    ("m11", "harmful", "Var._compute_result: correction applied when ddof == 0", [(COMPUTE, COMPUTE.replace("if self.ddof != 0:", "if self.ddof == 0:"))]),
    ("m12", "harmful", "Var.on_new: square of the sum for the sum of squares", [(VAR_NEW, VAR_NEW.replace("(new ** 2).sum()", "new.sum() ** 2"))]),
    ("m13", "harmful", "Var.on_old: count added", [(VAR_OLD, VAR_OLD.replace("n = n - new.count()", "n = n + new.count()"))]),
    ("m14", "harmful", "Mean.on_new: len(new) for new.count()", [(MEAN_NEW_IF, MEAN_NEW_IF.replace("counts + new.count()", "counts + len(new)"))]),
    ("m15", "harmful", "Sum.initial: starts at 1", [("        if isinstance(result, Number):\n            result = 0", "        if isinstance(result, Number):\n            result = 1")]),
    ("m16", "harmful", "Mean.on_new: `counts = 1` for an empty count, stored back (the defect as found)", [(MEAN_NEW_IF, """        if len(new):
            totals = totals + new.sum()
            counts = counts + new.count()
        if isinstance(counts, Number) and counts == 0:
            counts = 1
        return (totals, counts), _divide(totals, counts)
""")]),
    ("m17", "harmful", "Var._compute_result: n == 0 guard dropped (python int 0/0 raises)", [(COMPUTE, COMPUTE.replace(
        "        if isinstance(n, Number) and n == 0:\n            return np.nan\n", ""))]),
    ("m18", "harmful", "Var.on_new: state returned as (x2, x, n)", [(VAR_NEW, VAR_NEW.replace("return (x, x2, n),", "return (x2, x, n),"))]),
    ("m19", "harmful", "Mean.on_new: `if len(new)` guard dropped (a batch without columns poisons the state)", [(MEAN_NEW_IF, """        totals = totals + new.sum()
        counts = counts + new.count()
        return (totals, counts), _divide(totals, counts)
""")]),
    ("m20", "harmful", "_divide: isinstance test dropped (truth value of a Series)", [(DIVIDE, DIVIDE.replace("isinstance(counts, Number) and ", ""))]),
    ("m21", "harmful", "Var._compute_result: result * (n - ddof) / n", [(COMPUTE, COMPUTE.replace("result * n / (n - self.ddof)", "result * (n - self.ddof) / n"))]),
    ("m22", "harmful", "Sum.on_new: test inverted, branches not swapped", [(SUM_NEW, SUM_NEW.replace("if len(new):", "if not len(new):"))]),
    ("m23", "harmful", "accumulator: initial state taken when acc is NOT None", [("    if acc is None:\n        acc = agg.initial(new)\n    return agg.on_new(acc, new)",
                                                                           "    if acc is not None:\n        acc = agg.initial(new)\n    return agg.on_new(acc, new)")]),
    ("m24", "harmful", "diff_expanding: one-row batches not kept", [("""    dfs = deque(dfs)
    if len(new) > 0:
        dfs.append(new)
    return dfs, []""", """    dfs = deque(dfs)
    if len(new) > 1:
        dfs.append(new)
    return dfs, []""")]),
    ("m25", "harmful", "accumulator: the state is ignored", [("    return agg.on_new(acc, new)\n", "    return agg.on_new(agg.initial(new), new)\n")]),
    ("m26", "harmful", "Var.on_old: sum of squares not decayed", [(VAR_OLD, VAR_OLD.replace("            x2 = x2 - (new ** 2).sum()\n", ""))]),
    ("m27", "harmful", "Mean.on_old: totals decayed by the count", [(MEAN_OLD_IF, MEAN_OLD_IF.replace("totals - old.sum()", "totals - old.count()"))]),
    ("m29", "harmful", "Count.on_new: `acc += ...` (on a DataFrame stream acc is a Series: the previous state is updated in place)",
     [("        result = acc + new.count()\n        return result, result", "        acc += new.count()\n        return acc, acc")]),
    ("m30", "harmful", "Var.__init__: ddof shifted by one", [("    def __init__(self, ddof=1):\n        self.ddof = ddof\n", "    def __init__(self, ddof=1):\n        self.ddof = ddof + 1\n")]),
    ("m31", "harmful", "Sum.on_old: the state is updated in place (`acc[:] = ...`) on a DataFrame stream",
     [("        result = acc - old.sum()\n        return result, result", "        result = acc - old.sum()\n        if not isinstance(acc, Number):\n            acc[:] = 0\n        return result, result")]),
    ("m32", "harmful", "diff_iloc: a frame of exactly n rows is sliced, an empty frame stays in the deque", [(ILOC, ILOC.replace("if len(dfs[0]) <= n:", "if len(dfs[0]) < n:"))]),
    ("m33", "harmful", "diff_iloc: n not reset after the slice", [(ILOC, ILOC.replace("                dfs[0] = dfs[0].iloc[n:]\n                n = 0\n", "                dfs[0] = dfs[0].iloc[n:]\n"))]),
    ("m34", "harmful", "diff_iloc: one row too many decays", [("        n = sum(map(len, dfs)) - window\n        while n > 0:", "        n = sum(map(len, dfs)) - window + 1\n        while n > 0:")]),
    ("m35", "harmful", "diff_iloc: the two slices swapped", [(ILOC, ILOC.replace("old.append(dfs[0].iloc[:n])\n                dfs[0] = dfs[0].iloc[n:]", "old.append(dfs[0].iloc[n:])\n                dfs[0] = dfs[0].iloc[:n]"))]),
    ("m36", "harmful", "diff_iloc: whole frames leave without being handed to on_old", [(ILOC, ILOC.replace("                old.append(df)\n", ""))]),
    ("m37", "harmful", "diff_iloc: the count of the popped frame is not subtracted", [(ILOC, ILOC.replace("                n -= len(df)\n", "                n -= 1\n"))]),
    ("m28", "harmful", "Sum.on_new: `if len(new)` guard dropped (a batch without columns poisons the state)", [(SUM_NEW, """        result = acc + new.sum()
        return result, result
""")]),
]


def apply_edit(src, repl):
    for old, new in repl:
        if src.count(old) != 1:
            raise ValueError("the text to replace occurs %d times: %r" % (src.count(old), old[:60]))
        src = src.replace(old, new)
    return src


# ------------------------------------------------------------------------------------------------------------ behaviour
def load(src, name):
    import streamz.dataframe            # noqa: F401  (the package of the relative imports)
    mod = types.ModuleType("streamz.dataframe." + name)
    mod.__package__ = "streamz.dataframe"
    exec(compile(src, name + ".py", "exec"), mod.__dict__)
    return mod


def canon(v):
    import numpy as np
    import pandas as pd
    if isinstance(v, tuple):
        return ("tuple",) + tuple(canon(x) for x in v)
    if isinstance(v, (list,)) or type(v).__name__ == "deque":
        return ("list",) + tuple(canon(x) for x in v)
    if isinstance(v, pd.DataFrame):
        return ("frame", tuple(map(str, v.columns)), tuple(canon(v[c]) for c in v.columns))
    if isinstance(v, pd.Series):
        return ("series", tuple(map(str, v.index)), tuple(canon(x) for x in v.tolist()))
    if isinstance(v, (bool, np.bool_)):
        return bool(v)
    if isinstance(v, (int, float, np.integer, np.floating)):
        f = float(v)
        if math.isnan(f):
            return "nan"
        if math.isinf(f):
            return "inf" if f > 0 else "-inf"
        return ("num", float("%.10g" % f))
    if v is None:
        return None
    return repr(v)


def behaviour(mod):
    """outputs (or exception class names) of the aggregation functions over a fixed set of histories"""
    import numpy as np
    import pandas as pd
    nan = np.nan
    ser = [pd.Series([], dtype=float), pd.Series([1.0, 2.0, 4.0]), pd.Series([nan, nan]), pd.Series([3.0, nan, -5.0]), pd.Series([7.0])]
    fr = [pd.DataFrame({"x": [], "y": []}, dtype=float), pd.DataFrame({"x": [1.0, 2.0, 4.0], "y": [nan, 3.0, 3.0]}),
          pd.DataFrame({"x": [nan, nan], "y": [nan, 1.0]}), pd.DataFrame({"x": [3.0], "y": [-5.0]}), pd.DataFrame()]
    histories = [[0, 1, 0, 3], [1, 2, 3, 4], [2, 0, 1], [0], [0, 2], [4, 1, 4]]
    out = []

    def attempt(f):
        with warnings.catch_warnings():
            warnings.simplefilter("ignore")
            old = np.seterr(all="ignore")
            try:
                return canon(f())
            except Exception as e:            # noqa: BLE001
                return "raises " + type(e).__name__
            finally:
                np.seterr(**old)

    aggs = [("Sum", lambda: mod.Sum()), ("Count", lambda: mod.Count()), ("Size", lambda: mod.Size()), ("Mean", lambda: mod.Mean()),
            ("Var0", lambda: mod.Var(ddof=0)), ("Var1", lambda: mod.Var(ddof=1)), ("Var2", lambda: mod.Var(ddof=2))]
    for kind, batches in (("series", ser), ("frame", fr)):
        for name, mk in aggs:
            for h in histories:
                def run(h=h, mk=mk, batches=batches):
                    agg = mk()
                    res = []
                    acc = None
                    for i in h:
                        acc, r = mod.accumulator(acc, batches[i], agg=agg)
                        res.append((acc, r))
                    for i in h[:2]:                        # decay the two oldest batches again
                        if len(batches[i]):
                            acc, r = agg.on_old(acc, batches[i])
                            res.append((acc, r))
                    return res
                out.append(((kind, name, tuple(h)), attempt(run)))
            out.append(((kind, name, "initial"), attempt(lambda mk=mk, batches=batches: mk().initial(batches[1]))))
    out.append((("divide", 0), attempt(lambda: mod._divide(0, 0))))
    out.append((("divide", 1), attempt(lambda: mod._divide(3.0, np.int64(2)))))
    out.append((("divide", 2), attempt(lambda: mod._divide(0.0, np.int64(1)))))
    for n in (0, 1, 2, 3):
        for d in (0, 1, 2):
            out.append((("compute", n, d), attempt(lambda n=n, d=d: mod.Var(ddof=d)._compute_result(np.float64(6.0), np.float64(20.0), np.int64(n)))))
            out.append((("compute-int", n, d), attempt(lambda n=n, d=d: mod.Var(ddof=d)._compute_result(0, 0, n))))
    for i in (0, 2, 4):
        for w in range(0, 9):
            out.append((("diff_iloc", i, w), attempt(lambda i=i, w=w: mod.diff_iloc([ser[1], ser[3]], ser[i], window=w))))
    out.append((("diff_iloc", "empty"), attempt(lambda: mod.diff_iloc([], ser[0], window=2))))
    for i in (0, 1, 4):
        out.append((("diff_expanding", i), attempt(lambda i=i: mod.diff_expanding([ser[1]], ser[i] if i < 4 else ser[4]))))
    return out


# ------------------------------------------------------------------------------------------------------------ build
def sh(cmd, cwd=None, timeout=600):
    p = subprocess.run(cmd, shell=True, cwd=cwd, stdout=subprocess.PIPE, stderr=subprocess.STDOUT, text=True, timeout=timeout)
    return p.returncode, p.stdout


def lemma_at(path, line):
    name = None
    for i, ln in enumerate(open(path).read().split("\n"), 1):
        m = re.match(r"\s*(Theorem|Lemma)\s+(\w+)", ln)
        if m:
            name = m.group(2)
        if i >= line:
            break
    return name


def verdict_for(ident, src):
    """translate the text, compile the generated files and the bridges in a scratch directory -> (verdict, detail)"""
    try:
        files = gen_aggs.generate_all(ast.parse(src))
    except SyntaxError as e:
        return "translator", "syntax error: %s" % e
    errs = {k: e for k, (t, e) in files.items() if e is not None}
    if errs:
        return "translator", "; ".join("%s: %s" % kv for kv in sorted(errs.items()))
    d = os.path.join(SCRATCH, ident)
    shutil.rmtree(d, ignore_errors=True)
    os.makedirs(d)
    for stem, (text, _) in files.items():
        with open(os.path.join(d, stem + ".v"), "w") as f:
            f.write(text)
    theories = os.path.join(common.COQ, "theories")
    flags = "-Q %s SZ -Q %s SZA -w none" % (theories, d)
    for stem in gen_aggs.ORDER:
        rc, out = sh("timeout 300 coqc %s %s.v" % (flags, stem), cwd=d)
        if rc != 0:
            return "generated file does not compile", "%s: %s" % (stem, " ".join(out.split())[:300])
    failed = []
    for b in BRIDGES:
        path = os.path.join(theories, "Base", b + ".v")
        if not os.path.exists(path):
            continue
        text = open(path).read()
        text2 = re.sub(r"From SZ Require Import ((?:Gen\.KA_\w+\s*)+)\.",
                       lambda m: "From SZA Require Import %s." % " ".join(x[4:] for x in m.group(1).split()), text)
        if text2 == text:
            return "harness error", "%s does not import the generated modules the expected way" % b
        with open(os.path.join(d, b + ".v"), "w") as f:
            f.write(text2)
        rc, out = sh("timeout 600 coqc %s %s.v" % (flags, b), cwd=d)
        if rc != 0:
            m = re.search(r'File "([^"]+)", line (\d+)', out)
            failed.append(lemma_at(os.path.join(d, b + ".v"), int(m.group(2))) if m else "%s: %s" % (b, out[-200:]))
    if failed:
        return "bridge", ", ".join(str(x) for x in failed)
    return "quiet", ""


def main(argv):
    keep = "--keep" in argv
    nobeh = "--no-behaviour" in argv
    sel = [a for a in argv if not a.startswith("--")]
    rc, out, _ = common.coq_make(["theories/Base/%s.vo" % b for b in BRIDGES
                                  if os.path.exists(os.path.join(common.COQ, "theories", "Base", b + ".v"))])
    src = open(SRC).read()
    os.makedirs(SCRATCH, exist_ok=True)
    v, d = verdict_for("unchanged", src)
    print("%-5s %-9s %-10s %-34s %s" % ("id", "kind", "behaviour", "verdict", "edit"))
    print("%-5s %-9s %-10s %-34s %s" % ("-", "-", "-", (v + " " + d)[:34], "(unchanged source)"))
    if v != "quiet" or rc != 0:
        print("the unmodified source is not quiet (make rc=%d): nothing to compare with\n%s" % (rc, d))
        return 2
    base = None if nobeh else behaviour(load(src, "_aggs_base"))
    todo = []
    bad = 0
    for ident, kind, what, repl in EDITS:
        if sel and ident not in sel:
            continue
        try:
            text = apply_edit(src, repl)
        except ValueError as e:
            print("%-5s %-9s EDIT DOES NOT APPLY: %s" % (ident, kind, e))
            bad += 1
            continue
        beh = "-"
        if not nobeh:
            try:
                got = behaviour(load(text, "_aggs_" + ident))
                diff = [k for (k, a), (_, b) in zip(base, got) if a != b]
                beh = "same" if not diff else "differs"
            except Exception as e:        # noqa: BLE001
                beh = "differs"
        todo.append((ident, kind, what, text, beh))
    with concurrent.futures.ThreadPoolExecutor(max_workers=common.NCPU) as ex:
        futs = {ident: ex.submit(verdict_for, ident, text) for ident, kind, what, text, beh in todo}
        for ident, kind, what, text, beh in todo:
            v, d = futs[ident].result()
            noticed = v != "quiet"
            ok = noticed == (kind == "harmful")
            if not nobeh and (beh == "differs") != (kind == "harmful"):
                ok = False
                d += "   [the behaviour on the sample histories contradicts the classification]"
            bad += 0 if ok else 1
            print("%-5s %-9s %-10s %-34s %s%s" % (ident, kind, beh, (v + (" " + d if v == "bridge" else ""))[:34], what,
                                                  "" if ok else "   <-- UNEXPECTED"))
            if v in ("translator",) or (v == "bridge" and len(d) > 24) or not ok:
                print("      %s" % d[:400])
    if not keep:
        shutil.rmtree(SCRATCH, ignore_errors=True)
    print("%d edit(s), %d unexpected" % (len(todo), bad))
    return 1 if bad else 0


if __name__ == "__main__":
    sys.exit(main(sys.argv[1:]))
