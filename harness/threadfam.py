"""Threaded operation (C03 / C02): the event loop runs in a background thread, producers are ordinary threads that
call the BLOCKING source.emit(x); consumers return futures that the controller resolves in an order and grouping
chosen by the case.  Oracle only (the hand-over between threads -- streamz.core.sync -- is runtime glue that the Coq
models do not contain; the loop-side behaviour is the one of the asynchronous models).

case = {"node": {"k": "plain" | "buffer" | "map" | "union2", ...}, "threads": [[v, v, ..], ...],
        "acks": [[n, same_callback], ...]  groups of consumer completions: n outstanding futures (oldest first) are
                                          resolved inside ONE loop callback (same_callback) or in n separate ones}
No verdict depends on wall-clock durations: the controller only waits for "nothing changed for a while" before it
chooses the next completion (choosing early is just another legal schedule); a stall is reported only after the loop
thread answered a ping and nothing moved for STALL seconds with no consumer outstanding.
"""
import asyncio
import logging
import threading
import time

logging.disable(logging.CRITICAL)
STALL = 20.0
DRAIN_STALL = 8.0


class ConsumerFailed(Exception):
    pass


def flat(vals):
    out = []
    for v in vals:
        out.extend(v if isinstance(v, list) else [v])
    return out


class TRun:
    def __init__(self, case):
        self.case = case
        self.lock = threading.Lock()
        self.log = []            # ("call", tid, v) ("ret", tid, v) ("exc", tid, v, repr) ("deliv", v) ("ack", v)
        self.outstanding = []    # (v, fut) consumer futures not yet resolved
        self.loop = None

    def rec(self, *ev):
        with self.lock:
            self.log.append(ev)

    def start_loop(self):
        from tornado.ioloop import IOLoop
        ready = threading.Event()
        box = []

        def run():
            asyncio.set_event_loop(asyncio.new_event_loop())
            lp = IOLoop.current()
            box.append(lp)
            lp.add_callback(ready.set)
            lp.start()
            lp.close(all_fds=True)
        self.thread = threading.Thread(target=run, daemon=True)
        self.thread.start()
        ready.wait(10)
        self.loop = box[0]

    def build(self):
        from streamz import Stream
        sp = self.case["node"]
        k = sp["k"]
        self.sources = [Stream(loop=self.loop)]
        s = self.sources[0]
        if k == "plain":
            n = s.map(lambda x: x)
        elif k == "buffer":
            n = s.buffer(sp["n"])
        elif k == "union2":
            s2 = Stream(loop=self.loop)
            self.sources.append(s2)
            n = s.union(s2)
        elif k == "forward":
            # the producers emit LISTS; every item is forwarded by a consumer (on the loop thread, inside the blocking
            # emit) into a second pipeline on the same loop with `out.emit`
            out = Stream(loop=self.loop)
            self.keep = s.flatten().sink(out.emit)
            n = out.map(lambda x: x)
        else:
            raise KeyError(k)
        run = self

        def sinkf(x):
            fut = asyncio.get_event_loop().create_future()
            with run.lock:
                run.log.append(("deliv", x))
                run.outstanding.append((x, fut))
            return fut
        self.sink = n.sink(sinkf)

    def emitter(self, tid, vals):
        src = self.sources[tid % len(self.sources)]
        for v in vals:
            self.rec("call", tid, v)
            try:
                src.emit(v)
                self.rec("ret", tid, v)
            except BaseException as e:
                self.rec("exc", tid, v, repr(e))

    def snapshot(self):
        with self.lock:
            return (len(self.log), len(self.outstanding))

    def settle(self, quiet=0.012, limit=2.0):
        """wait until nothing changes for `quiet` seconds"""
        t0 = time.time()
        last = self.snapshot()
        tl = time.time()
        while time.time() - t0 < limit:
            time.sleep(0.001)
            cur = self.snapshot()
            if cur != last:
                last, tl = cur, time.time()
            elif time.time() - tl >= quiet:
                return
        return

    def ping(self, timeout=30):
        ev = threading.Event()
        self.loop.add_callback(ev.set)
        return ev.wait(timeout)

    def run(self):
        self.start_loop()
        done = threading.Event()
        self.loop.add_callback(lambda: (self.build(), done.set()))
        done.wait(10)
        ths = [threading.Thread(target=self.emitter, args=(i, vals), daemon=True) for i, vals in enumerate(self.case["threads"])]
        for t in ths:
            t.start()
        acks = list(self.case["acks"])
        stalled = False
        blocked = False
        idle_since = None
        while any(t.is_alive() for t in ths):
            self.settle()
            with self.lock:
                nout = len(self.outstanding)
            if nout:
                idle_since = None
                ent = acks.pop(0) if acks else [1, False]
                n, same = ent[0], ent[1]
                fail = len(ent) > 2 and ent[2]
                with self.lock:
                    grp = self.outstanding[:n]
                    del self.outstanding[:n]
                    for (v, f) in grp:
                        self.log.append(("ackfail" if fail else "ack", v))
                if fail:
                    for (v_, f) in grp:
                        self.loop.add_callback(f.set_exception, ConsumerFailed(v_))
                elif same:
                    self.loop.add_callback(lambda grp=grp: [f.set_result(None) for (_, f) in grp])
                else:
                    for (_, f) in grp:
                        self.loop.add_callback(f.set_result, None)
            else:
                if idle_since is None:
                    idle_since = time.time()
                if time.time() - idle_since > STALL:
                    if not self.ping(timeout=10):
                        blocked = True          # the loop thread itself does not answer any more
                        break
                    self.settle()
                    with self.lock:
                        if not self.outstanding:
                            stalled = True
                            break
        # let late deliveries (buffer) be consumed: go on until everything emitted has been delivered and acknowledged,
        # or nothing has moved for DRAIN_STALL seconds although the loop thread answers
        total = len(flat([x for v in self.case["threads"] for x in v]))
        last_progress = time.time()
        while not stalled and not blocked:
            self.settle(quiet=0.01, limit=0.5)
            with self.lock:
                grp = list(self.outstanding)
                del self.outstanding[:]
                for (v, f) in grp:
                    self.log.append(("ack", v))
                ndeliv = sum(1 for e in self.log if e[0] == "deliv")
            for (_, f) in grp:
                self.loop.add_callback(f.set_result, None)
            if grp:
                last_progress = time.time()
                continue
            if ndeliv >= total:
                break
            if time.time() - last_progress > DRAIN_STALL and self.ping():
                break
        alive = [i for i, t in enumerate(ths) if t.is_alive()]
        self.loop.add_callback(self.loop.stop)
        self.thread.join(5)
        with self.lock:
            return {"log": [list(e) for e in self.log], "stalled": stalled, "alive": alive, "blocked": blocked}


def run_case(case):
    return TRun(case).run()


def check(case, res, want=("C02", "C03")):
    out = []
    log = res["log"]
    k = case["node"]["k"]
    pos_ack = {}
    pos_ret = {}
    for i, e in enumerate(log):
        if e[0] == "ack":
            pos_ack.setdefault(e[1], i)
        if e[0] == "ret" and not isinstance(e[2], list):
            pos_ret[e[2]] = i
    failed = {e[1] for e in log if e[0] == "ackfail"}
    if "C16" in want:
        raised = {(e[2] if not isinstance(e[2], list) else tuple(e[2])) for e in log if e[0] == "exc"}
        for v in failed:
            if v not in raised:
                out.append(("C16", "C16/threaded/exception-swallowed", "the consumer of %r failed but the blocking emit(%r) returned normally" % (v, v)))
                break
        for e in log:
            if e[0] == "exc" and e[2] not in failed:
                out.append(("C16", "C16/threaded/spurious-exception", "blocking emit(%r) raised %s although its consumer did not fail" % (e[2], e[3])))
                break
    if "C03" in want:
        for e in log:
            if e[0] == "exc" and e[2] in failed:
                continue
            if e[0] == "exc":
                out.append(("C03", "C03/threaded/emit-raises", "blocking emit(%r) of thread %d raised %s although no node or consumer failed" % (e[2], e[1], e[3])))
                break
        if res.get("blocked"):
            out.append(("C03", "C03/threaded/loop-thread-blocked", "the event-loop thread stopped answering while blocking emits of threads %r were pending (a blocking wait on the loop thread itself)" % (res["alive"],)))
        elif res["stalled"] or res["alive"]:
            out.append(("C03", "C03/threaded/emit-never-returns", "all consumers finished but the blocking emits of threads %r never returned" % (res["alive"],)))
        if k == "forward":
            for e in log:
                if e[0] == "ret":
                    i = log.index(e)
                    late = [x for x in e[2] if x not in pos_ack or pos_ack[x] > i]
                    if late:
                        out.append(("C03", "C03/threaded/emit-early", "blocking emit(%r) returned before the consumers of the forwarded items %r finished" % (e[2], late)))
                        break
        if k in ("plain", "union2"):
            for v, i in pos_ret.items():
                if v not in pos_ack or pos_ack[v] > i:
                    out.append(("C03", "C03/threaded/emit-early", "blocking emit(%r) returned before its consumer finished" % (v,)))
                    break
    if "C02" in want and not res["stalled"] and not res["alive"] and not res.get("blocked"):
        deliv = [e[1] for e in log if e[0] == "deliv"]
        emitted = flat([v for vals in case["threads"] for v in vals])
        raised = {e[2] for e in log if e[0] == "exc"}
        if sorted(deliv) != sorted(emitted):
            out.append(("C02", "C02/threaded/loss-or-dup", "sink received %r, producers emitted %r" % (sorted(deliv), sorted(emitted))))
        else:
            for vals in case["threads"]:
                vals = flat(vals)
                sub = [v for v in deliv if v in vals]
                if sub != list(vals):
                    out.append(("C02", "C02/threaded/order", "thread emitted %r, sink saw them as %r" % (vals, sub)))
                    break
    return out


def gen_case(rng, fail=False):
    k = rng.choice(["plain", "plain", "buffer", "union2", "forward", "forward"]) if not fail else "plain"
    sp = {"k": k}
    if k == "buffer":
        sp["n"] = rng.choice([1, 2, 3])
    nth = rng.choice([1, 2, 2, 3])
    v = 0
    threads = []
    for _ in range(nth):
        vals = []
        for _ in range(rng.choice([1, 1, 2, 3])):
            if k == "forward":
                items = []
                for _j in range(rng.choice([1, 2, 2, 3])):
                    v += 1
                    items.append(v)
                vals.append(items)
            else:
                v += 1
                vals.append(v)
        threads.append(vals)
    acks = [[rng.choice([1, 1, 2, 3]), rng.random() < 0.6] for _ in range(v + 2)]
    if fail:
        # some consumers FAIL (one completion at a time, so that it is clear whose consumer failed)
        acks = [[1, False, rng.random() < 0.4] for _ in range(v + 2)]
    return {"node": sp, "threads": threads, "acks": acks}


if __name__ == "__main__":
    import json
    import random
    import sys
    rng = random.Random(int(sys.argv[1]) if len(sys.argv) > 1 else 0)
    n = int(sys.argv[2]) if len(sys.argv) > 2 else 20
    t0 = time.time()
    bad = {}
    for _ in range(n):
        c = gen_case(rng)
        r = run_case(c)
        for (p, sig, msg) in check(c, r):
            bad.setdefault(sig, (c, msg))
    print("%d cases %.1fs" % (n, time.time() - t0))
    for sig, (c, msg) in bad.items():
        print(sig, msg, json.dumps(c))
