"""Which properties have a working check, with the texts that go into MANIFEST.json."""
NOTE_SYNC = ("Trusted: Coq kernel + vm_compute; the hand-written Gallina model of core.py's update methods and Stream._emit "
             "(coq/theories/Sync) is tied to /repo by the correspondence check (random pipelines run on the real code, full call "
             "forest / counters / callback log compared inside Coq) and by a model-free list-level oracle; user functions are "
             "drawn from a shared symbol table; feedback edges and kafka/textfile sinks are outside the model.")
CHECKS = {
 "C01": dict(technique="Coq proof (induction over push/fuel, invariant over event lists) + differential correspondence + list-level oracle",
             text="Theorems pipeline_dataflow / edge_faithful / sibling_order / push_fuel_enough and per-kind list-level semantics hold for every DAG, every input sequence and interleaving of entry points (unbounded); the model is re-validated against the working tree on every run.",
             note=NOTE_SYNC + " Proved per-kind semantics: source/union/map/filter/starmap/pluck/flatten/accumulate/slice/partition(no key)/sink; the other kinds are covered by pipeline_dataflow (state = fold of update) plus correspondence and oracle only.",
             design_ref="DESIGN.md 5 C01"),
}
CHECKS["C05"] = dict(technique="Coq proof (count-minus-holders preserved exactly by every push; induction on fuel) + differential correspondence + holder-count oracle",
    text="push_excess: every exception-free push preserves count r - holders r exactly for every counter, DAG and starting world; balance_at_quiescence, count_nonneg, left_pipeline_zero follow for whole runs. Counters, callback log and holder multisets of the real code are compared after every event.",
    note=NOTE_SYNC + " The per-kind books lemma (kind_books) is proved for source/union/map/starmap/filter/accumulate/slice/unique/flatten/pluck/sink/collect/partition; for sliding_window, zip, combine_latest, zip_latest, partition_unique it needs a state invariant and is NOT proved: those are covered by correspondence and oracle only (partial). collect.flush and the asynchronous nodes are likewise correspondence/oracle only in this check. An entry point with no attached consumer never completes an element (hypothesis entry_has_downstream).",
    design_ref="DESIGN.md 5 C05")
CHECKS["C10"] = dict(technique="Coq proof (edges carry (value, metadata) pairs; per-kind list-level metadata semantics) + differential correspondence + contributor oracle",
    text="pipeline_dataflow over (value, metadata) pairs plus per-kind theorems: one-to-one nodes pass metadata unchanged, flatten attaches it to the last piece, partition passes the concatenation in member order. Flatness is by type in the model; the encoder reports any non-flat metadata delivered by the code.",
    note=NOTE_SYNC + " Per-kind metadata theorems proved for source/union/map/filter/starmap/pluck/accumulate/slice/flatten/partition(no key); combining nodes (zip, combine_latest, zip_latest, sliding_window, partition_unique, collect) are covered by pipeline_dataflow (state/outputs = fold of update), correspondence and the contributor oracle only.",
    design_ref="DESIGN.md 5 C10")
CHECKS["C16"] = dict(technique="Coq proof (status stickiness, failing call frame, count floor invariant) + differential correspondence with fault-injecting symbols + fault oracle",
    text="exn_reaches_emit (a normal return implies no user function raised anywhere in the cascade), failing_call_changes_nothing, later_as_if_not_offered, cb_never_for_failed / failed_stays_unfired (in directly connected pipelines an emit that raises leaves the failed element's counters >= 1 without scheduling its callback, and no later emit schedules it) for all pipelines, inputs and fault choices (user functions are arbitrary partial functions).",
    note=NOTE_SYNC + " Fault choices are realised in the correspondence by value-triggered failing symbols (FFailIn etc.). The asynchronous carrier (awaitable of emit / sync()) is exercised only through partition in the C01 family; blocking emit across threads is trusted.",
    design_ref="DESIGN.md 5 C16")
