"""Which properties have a working check, with the texts that go into MANIFEST.json."""
NOTE_SYNC = ("Trusted: Coq kernel + vm_compute; the hand-written Gallina model of core.py's update methods and Stream._emit "
             "(coq/theories/Sync) is tied to /repo by the correspondence check (random pipelines run on the real code, full call "
             "forest / counters / callback log compared inside Coq) and by a model-free list-level oracle; user functions are "
             "drawn from a shared symbol table; feedback edges and kafka/textfile sinks are outside the model.")
CHECKS = {
 "C01": dict(technique="Coq proof (induction over push/fuel, invariant over event lists) + differential correspondence + list-level oracle",
             text="Theorems pipeline_dataflow / edge_faithful / sibling_order / push_fuel_enough and per-kind list-level semantics hold for every DAG, every input sequence and interleaving of entry points (unbounded); the model is re-validated against the working tree on every run.",
             note=NOTE_SYNC + " Proved per-kind semantics: source/union/map/filter/starmap/pluck/flatten/accumulate/slice/partition(no key)/sink; the other kinds are covered by pipeline_dataflow (state = fold of update) plus correspondence and oracle only.",
             design_ref="DESIGN.md 5 C01"),
}
CHECKS["C05"] = dict(technique="Coq proof (count-minus-holders preserved exactly by every push; induction on fuel) + differential correspondence + holder-count oracle",
    text="push_excess: every exception-free push preserves count r - holders r exactly for every counter, DAG and starting world; balance_at_quiescence, count_nonneg, left_pipeline_zero follow for whole runs. Counters, callback log and holder multisets of the real code are compared after every event.",
    note=NOTE_SYNC + " The per-kind books lemma (kind_books) is proved for source/union/map/starmap/filter/accumulate/slice/unique/flatten/pluck/sink/collect/partition; for sliding_window, zip, combine_latest, zip_latest, partition_unique it needs a state invariant and is NOT proved: those are covered by correspondence and oracle only (partial). collect.flush and the asynchronous nodes are likewise correspondence/oracle only in this check. An entry point with no attached consumer never completes an element (hypothesis entry_has_downstream).",
    design_ref="DESIGN.md 5 C05")
CHECKS["C10"] = dict(technique="Coq proof (edges carry (value, metadata) pairs; per-kind list-level metadata semantics) + differential correspondence + contributor oracle",
    text="pipeline_dataflow over (value, metadata) pairs plus per-kind theorems: one-to-one nodes pass metadata unchanged, flatten attaches it to the last piece, partition passes the concatenation in member order. Flatness is by type in the model; the encoder reports any non-flat metadata delivered by the code.",
    note=NOTE_SYNC + " Per-kind metadata theorems proved for source/union/map/filter/starmap/pluck/accumulate/slice/flatten/partition(no key); combining nodes (zip, combine_latest, zip_latest, sliding_window, partition_unique, collect) are covered by pipeline_dataflow (state/outputs = fold of update), correspondence and the contributor oracle only.",
    design_ref="DESIGN.md 5 C10")
CHECKS["C16"] = dict(technique="Coq proof (status stickiness, failing call frame, count floor invariant) + differential correspondence with fault-injecting symbols + fault oracle",
    text="exn_reaches_emit (a normal return implies no user function raised anywhere in the cascade), failing_call_changes_nothing, later_as_if_not_offered, cb_never_for_failed / failed_stays_unfired (in directly connected pipelines an emit that raises leaves the failed element's counters >= 1 without scheduling its callback, and no later emit schedules it) for all pipelines, inputs and fault choices (user functions are arbitrary partial functions).",
    note=NOTE_SYNC + " Fault choices are realised in the correspondence by value-triggered failing symbols (FFailIn etc.). The asynchronous carrier (awaitable of emit / sync()) is exercised only through partition in the C01 family; blocking emit across threads is trusted.",
    design_ref="DESIGN.md 5 C16")
NOTE_ASYNC = ("Trusted: Coq kernel + vm_compute; hand-written Gallina models of the asynchronous nodes (coq/theories/Async: buffer, delay, "
              "rate_limit, timed_window(_unique), partition with timeout, latest, zip, map_async, plain) where one model step = what the real "
              "coroutines do between two quiescent points of the event loop; tied to /repo by running the REAL nodes on a stepped "
              "virtual-time asyncio loop (harness/vloop.py: select never blocks, timers fire in due order, busy-waits detected) with "
              "harness-resolved consumer futures and comparing deliveries, completed emits, counters and callback log after every action inside "
              "Coq; plus model-free oracles on single nodes and on random multi-node chains. Not modelled: the order of callbacks inside one loop "
              "iteration, real threads and wall-clock drift; tornado/asyncio themselves are trusted.")
CHECKS["C02"] = dict(technique="Coq proof (invariants over all schedules, per asynchronous node + composition lemma) + differential correspondence on a stepped virtual loop + sequence oracle on nodes and chains",
    text="For every schedule (action list) each lossless asynchronous node delivers, in order and exactly once, a prefix of what it received, and everything once drained: buffer_fifo, delay_fifo, rl_fifo, map_async_order (whatever the completion order), tw_conserve, partition_conserve, zip_pairs; chain_prefix/chain_complete compose stages.",
    note=NOTE_ASYNC + " zip_pairs carries the hypothesis that emits use input 0 or 1 (zip_pairs_partial); pipeline-level statement for DAGs of asynchronous nodes is by the composition lemma plus the chain oracle, not a single end-to-end theorem. Native coroutines and tornado futures as consumers are both exercised by the demo scripts in findings/, the correspondence uses asyncio futures.",
    design_ref="DESIGN.md 5 C02")
CHECKS["C03"] = dict(technique="Coq proof (reachable-state invariants: bounds, no-lost-wakeup, done-set) + differential correspondence + bound/deadlock oracle",
    text="buffer_bound (queue <= n, blocked put only when full and busy), buffer_no_lost_wakeup and buffer_done (every emit completed or blocked, none twice), map_async_queue_bound and map_async_bound_p1 with map_async_bound_refuted (p+1 tasks: known finding), zip_waiters_released, tw_waiting/tw_done, plain_emit_waits (no buffering node: emit completes only at the consumer's completion), for all schedules.",
    note=NOTE_ASYNC + " Known findings: map_async runs parallelism+1 tasks (kept by the test-suite); zip over-wakes with several un-awaited producers per input. Blocking emit from another thread (sync()) is trusted, only its decision logic is exercised by the synchronous family.",
    design_ref="DESIGN.md 5 C03")
CHECKS["C04"] = dict(technique="Coq proof (count = holders invariant + callback-only-at-zero inversion, all schedules, fresh ids) + differential correspondence + provenance oracle",
    text="X_cb_not_early for buffer, delay, latest, rate_limit, timed_window(_unique), partition(timeout), map_async: at every quiescent point of every schedule, a counter whose callback has been scheduled is held nowhere in the node nor by its unfinished consumer; zip_cb_early_refuted / plain_cb_early_refuted are the faithful models of the known generic early release of non-waiting nodes.",
    note=NOTE_ASYNC + " Known findings: references are released when downstream.update() returns, so with only non-waiting nodes before an asynchronous sink the callback is early; flatten attaches metadata to the last piece only. 'Never for an element whose processing raised' is C16 (synchronous) plus the map_async fix; dask scatter/gather are under C20.",
    design_ref="DESIGN.md 5 C04")
CHECKS["C08"] = dict(technique="Coq proof (invariants over all schedules incl. tick-by-tick time) + differential correspondence + deadline/size oracle",
    text="tw_conserve, tw_unique_keys, tw_deadline (unless blocked by its consumer the window flushes within one interval), partition_size, partition_conserve, partition_timer_inv_gen (armed timers = keys with non-empty buffer, each once, due within the timeout: a size flush cancels the timer, no spurious or empty partition), partition_buf_bound.",
    note=NOTE_ASYNC + " Keyed partitions with a timeout are exercised by the oracle only when two timers could fall on the same instant (heap order artefact). The deadline under backpressure is checked by the oracle (blocked time measured on the trace), the theorem states the unblocked bound.",
    design_ref="DESIGN.md 5 C08")
CHECKS["C13"] = dict(technique="Coq proof (slot-reservation invariant over all arrival patterns) + differential correspondence + spacing oracle",
    text="rl_spacing (consecutive deliveries differ by >= interval), rl_fifo, rl_idle_no_delay, rl_done_sync, rl_sleepers_spaced; delay_fifo, delay_done, delay_times_sorted, delay_no_stall; for all schedules incl. bursts, idle gaps and producers that do not await.",
    note=NOTE_ASYNC,
    design_ref="DESIGN.md 5 C13")
CHECKS["C14"] = dict(technique="Coq proof (invariant over all schedules) + differential correspondence + subsequence oracle incl. same-iteration bursts",
    text="latest_subseq (order-preserving embedding: nothing twice), latest_final (once the consumer is free the newest element has been delivered), latest_done, for all interleavings of arrivals and consumer completions.",
    note=NOTE_ASYNC + " Several arrivals inside ONE loop iteration (bursts) are not a model action; they are covered by the oracle on the real code only.",
    design_ref="DESIGN.md 5 C14")
CHECKS["C05"]["text"] += " Asynchronous nodes: X_balance (count = holders at every quiescent point of every schedule) for buffer, delay, latest, rate_limit, timed_window, partition(timeout), map_async, zip (Props/C05A.v)."
CHECKS["C05"]["note"] += " Known finding: latest keeps its slot referenced after delivery (required by test_latest_ref_counts)."
CHECKS["C18"] = dict(technique="Coq proof (invariant over all start/stop/ack/advance histories) + differential correspondence on the stepped virtual loop (exhaustive short histories + random) + lifecycle oracle",
    text="one_loop (at most one polling loop alive), no_new_cycle_after_stop (once stopped, no action other than start delivers anything), start/stop idempotence, from_iterable_exact / _backpressure / _complete (exactly the items, in order, one outstanding at a time), periodic_values and periodic_spacing (no poll duplicated or closer than the interval, also across restarts); one_loop_refuted and periodic_spacing_asfound_refuted for the code as found (repaired by a fix: commit).",
    note="Trusted: Coq kernel + vm_compute; hand model Ext/SourceLife.v of Source.start/stop/run, from_periodic._run and from_iterable.run (one model step = between quiescent points of the loop); tied to /repo by running the real sources on harness/vloop.py for every start/stop/ack/advance word of length 5 (7 thorough) plus random histories. Not modelled: the Kafka/TCP/HTTP/websocket sources' own polling loops (FromKafkaBatched is under C09), start()/stop() called from another thread.",
    design_ref="DESIGN.md 5 C18")
CHECKS["C15"] = dict(technique="Coq model with links stored at both ends + garbage-collection reachability; differential correspondence on random edit/emit histories; link/delivery oracle (theorems: see note)",
    text="Executable model of connect / disconnect / destroy / reference drop with CPython's collection rule (upstream references strong, downstream weak), zip and combine_latest overrides, compared with the real objects' upstreams/downstreams/aliveness and deliveries after every operation; oracle checks mutual consistency of links and delivery exactly along current edges.",
    note="Trusted: Coq kernel + vm_compute; model Sync/Topology.v (pipe/sink/zip/combine_latest; union and map behave as pipe), harness/topofam.py. PARTIAL: the invariant theorems (links_consistent, delivery_along_edges, combine_as_fresh) are being added; until then the claim rests on the model-vs-code correspondence and the oracle.",
    design_ref="DESIGN.md 5 C15")
