"""Which properties have a working check, with the texts that go into MANIFEST.json."""
NOTE_SYNC = ("Trusted: Coq kernel + vm_compute; the hand-written Gallina model of core.py's update methods and Stream._emit "
             "(coq/theories/Sync) is tied to /repo by the correspondence check (random pipelines run on the real code, full call "
             "forest / counters / callback log compared inside Coq) and by a model-free list-level oracle; user functions are "
             "drawn from a shared symbol table; feedback edges and kafka/textfile sinks are outside the model.")
CHECKS = {
 "C01": dict(technique="Coq proof (induction over push/fuel, invariant over event lists) + differential correspondence + list-level oracle",
             text="Theorems pipeline_dataflow / edge_faithful / sibling_order / push_fuel_enough and per-kind list-level semantics hold for every DAG, every input sequence and interleaving of entry points (unbounded); the model is re-validated against the working tree on every run.",
             note=NOTE_SYNC + " Proved per-kind semantics: source/union/map/filter/starmap/pluck/flatten/accumulate/slice/partition(no key)/sink; the other kinds are covered by pipeline_dataflow (state = fold of update) plus correspondence and oracle only.",
             design_ref="DESIGN.md 5 C01"),
}
