"""C11: drive the real streamz rolling / cumulative / expanding / ewm API on a case, and the pandas one-pass oracle.

case = {"fam": "roll"|"troll"|"cum"|"ewm"|"exp", "op": name, "w": window rows | T ns | com (ewm) | 0,
        "rows": [[stamp, key, val|None], ...], "sizes": [batch sizes]}
Per batch the implementation emits: roll/troll/cum -> one value per row of the batch ['l', [...]];
ewm/exp -> one value (the statistic at the last row of the prefix) ['s', v] (ewm: ['l', []] while nothing was seen)."""
import dfw_common as D
import numpy as np
import pandas as pd
from streamz import Stream
from streamz.dataframe import DataFrame

ROLL_OPS = ["sum", "mean", "min", "max", "count", "median", "std", "var", "quantile"]
CUM_OPS = ["cumsum", "cumprod", "cummin", "cummax"]
EXP_OPS = ["sum", "count", "mean", "var", "var0", "std", "size"]
EXACT_OPS = {"sum", "min", "max", "count", "median", "cumsum", "cumprod", "cummin", "cummax", "size"}


def _roll(r, op):
    if op == "quantile":
        return r.quantile(0.5)
    return getattr(r, op)()


def _exp(obj, op):
    if op == "var0":
        return obj.var(ddof=0)
    if op == "var":
        return obj.var(ddof=1)
    if op == "std":
        return obj.std(ddof=1)
    if op == "size":
        return obj.size
    return getattr(obj, op)()


def build(sdf, case):
    fam, op, w = case["fam"], case["op"], case["w"]
    if fam == "roll":
        return _roll(sdf.rolling(w).x, op)
    if fam == "troll":
        return _roll(sdf.rolling(pd.Timedelta(w, "ns")).x, op)
    if fam == "cum":
        return getattr(sdf.x, op)()
    if fam == "ewm":
        return sdf.ewm(com=w).x.mean()
    if fam == "exp":
        return _exp(sdf.expanding().x, op)
    raise ValueError(fam)


def run_impl_steps(case):
    dt = case["fam"] == "troll"
    ex = D.mkframe([[0, 0, 1]], dt)
    source = Stream()
    sdf = DataFrame(source, example=ex)
    L = build(sdf, case).stream.sink_to_list()
    out = []
    for b in D.batches_of(case["rows"], case["sizes"]):
        n0 = len(L)
        try:
            source.emit(D.mkframe(b, dt))
        except Exception as e:
            out.append(["exc", type(e).__name__])
            del L[n0:]
            continue
        if len(L) != n0 + 1:
            out.append(["exc", "emitted-%d-results" % (len(L) - n0)])
            del L[n0:]
            continue
        r = L[-1]
        if case["fam"] in ("roll", "troll", "cum"):
            out.append(["l", D.canon_list(r)])
        elif isinstance(r, (pd.Series, pd.DataFrame)):
            vals = D.canon_list(r)
            out.append(["s", vals[0]] if len(vals) == 1 else ["l", vals])
        else:
            out.append(["s", D.encnum(r)])
    return out


def run_oracle(case):
    """pandas in ONE pass over the concatenated table, cut at the batch boundaries"""
    fam, op, w = case["fam"], case["op"], case["w"]
    dt = fam == "troll"
    full = D.mkframe(case["rows"], dt)
    out = []
    if fam in ("roll", "troll", "cum"):
        if fam == "roll":
            res = _roll(full.x.rolling(w), op)
        elif fam == "troll":
            res = _roll(full.x.rolling(pd.Timedelta(w, "ns")), op)
        else:
            res = getattr(full.x, op)()
        vals = D.canon_list(res)
        i = 0
        for s in case["sizes"]:
            out.append(["l", vals[i:i + s]])
            i += s
        return out
    n = 0
    for s in case["sizes"]:
        n += s
        pre = full.iloc[:n]
        if fam == "ewm":
            if n == 0:
                out.append(["l", []])
            else:
                out.append(["s", D.encnum(pre.x.ewm(com=w).mean().iloc[-1])])
        else:
            if op == "size":
                out.append(["s", float(len(pre))])
            elif n == 0:
                out.append(["s", D.encnum(_exp(pre.x, op))])
            else:
                out.append(["s", D.encnum(_exp(pre.x.expanding(), op).iloc[-1])])
    return out


def compare(case, got, exp):
    if len(got) != len(exp):
        return (min(len(got), len(exp)), "emission-count")
    exact = case["op"] in EXACT_OPS
    for i, (a, b) in enumerate(zip(got, exp)):
        if a[0] == "exc" or b[0] == "exc":
            if a != b:
                return (i, "raises-" + (a[1] if a[0] == "exc" else "oracle"))
            continue
        if not D.canon_close(a, b, exact):
            return (i, "shape" if a[0] != b[0] or (a[0] == "l" and len(a[1]) != len(b[1])) else "value")
    return None
