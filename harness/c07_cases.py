"""C07 case generation, evaluation (implementation + oracle), signatures, shrinking, Coq encoding."""
import json
import logging
import os
import random
import sys

sys.path.insert(0, os.path.dirname(os.path.abspath(__file__)))
import dfw_common as D

SIG_LOC = "C07/window-value/diff_loc/row-at-newest-minus-T-plus-1ns-sliced-inclusively"
SIG_MEAN = "C07/window/mean/scalar-count-zero"
SIG_VAR = "C07/window/var/scalar-empty-ZeroDivisionError"
SIG_DDOF = "C07/window/var/ddof>=2-with-n<=ddof"

# aggregations the Coq model covers (std is var**0.5 in streamz; value_counts / ddof=2 are oracle-only)
MODEL_AGGS = {"sum": "ASum", "count": "ACount", "size": "ASize", "mean": "AMean", "var": "(AVar 1)", "var0": "(AVar 0)"}
GROUPS = [None, "col", "ser"]


def aggs_for(group):
    import c07_impl as I
    return I.GROUP_AGGS if group else I.PLAIN_AGGS


# ------------------------------------------------------------------------------------------------
# tables: [stamp, key, val]; stamps non-decreasing
# ------------------------------------------------------------------------------------------------
TABLES_N = [
    # keys entering, leaving, re-entering; one NaN cell
    [[0, 0, 1], [1, 1, 2], [2, 0, 4], [3, 2, None], [4, 1, 3]],
    [[0, 1, 2], [1, 1, 2], [2, 0, 3], [3, 0, 3], [4, 1, 1]],
]
TABLES_T = [
    # duplicate stamps, gaps; with T in 1..4 rows sit exactly at newest-T and newest-T+1
    [[0, 0, 1], [1, 1, 2], [3, 0, 4], [3, 1, 3], [4, 2, 5]],
    [[0, 1, 2], [2, 1, 2], [2, 0, None], [5, 0, 3], [6, 1, 1]],
    [[0, 0, 3], [1, 0, 1], [2, 1, 2], [3, 1, 2], [4, 0, 5]],
]
TABLE6_N = [[0, 0, 1], [1, 1, 2], [2, 0, 4], [3, 2, 2], [4, 1, 3], [5, 0, 1]]
TABLE6_T = [[0, 0, 1], [1, 1, 2], [1, 0, 4], [3, 2, 2], [4, 1, 3], [6, 0, 1]]


def size_lists(n, empties=True):
    out = []
    for parts in D.compositions(n):
        out.append(list(parts))
        if empties:
            out.append([0] + parts)
            out.append(parts[:len(parts) // 2 + 1] + [0] + parts[len(parts) // 2 + 1:])
            out.append(parts + [0])
    return out


def quick_cases():
    cases = []
    for rows in TABLES_N:
        for sizes in size_lists(len(rows)):
            for w in (1, 2, 3, 5):
                for g in GROUPS:
                    for agg in aggs_for(g):
                        cases.append(dict(kind="n", w=w, agg=agg, group=g, rows=rows, sizes=sizes))
    for rows in TABLES_T:
        for sizes in size_lists(len(rows)):
            for w in (1, 2, 3, 4):
                for g in GROUPS:
                    for agg in aggs_for(g):
                        cases.append(dict(kind="t", w=w, agg=agg, group=g, rows=rows, sizes=sizes))
    # six rows: all compositions, fewer aggregations
    for kind, rows, ws in (("n", TABLE6_N, (1, 2, 3, 5)), ("t", TABLE6_T, (2, 3))):
        for sizes in size_lists(len(rows), empties=False):
            for w in ws:
                for g, agg in ((None, "sum"), (None, "mean"), ("col", "sum"), ("ser", "count")):
                    cases.append(dict(kind=kind, w=w, agg=agg, group=g, rows=rows, sizes=sizes))
    # all-empty runs and a leading run of empties
    for kind, w in (("n", 2), ("t", 3)):
        for g in GROUPS:
            for agg in aggs_for(g):
                cases.append(dict(kind=kind, w=w, agg=agg, group=g, rows=[], sizes=[0, 0]))
                cases.append(dict(kind=kind, w=w, agg=agg, group=g, rows=[[5, 1, 2], [7, 1, None]], sizes=[0, 0, 1, 0, 1]))
    # ddof = 2 (oracle only)
    for sizes in size_lists(5, empties=False):
        for g in GROUPS:
            cases.append(dict(kind="n", w=2, agg="var2", group=g, rows=TABLES_N[1], sizes=sizes))
    return cases


def random_case(rng, big):
    n = rng.randint(0, 14 if big else 7)
    kind = rng.choice("nt")
    rows, t = [], rng.randint(0, 3)
    for _ in range(n):
        t += rng.choice([0, 0, 1, 1, 1, 2, 3, 5])
        rows.append([t, rng.randint(0, 3), None if rng.random() < 0.1 else rng.randint(-3, 6)])
    sizes, left = [], n
    while left > 0:
        if rng.random() < 0.15:
            sizes.append(0)
            continue
        s = rng.randint(1, min(left, 6))
        sizes.append(s)
        left -= s
    while rng.random() < 0.25:
        sizes.insert(rng.randint(0, len(sizes)), 0)
    if not sizes:
        sizes = [0]
    g = rng.choice(GROUPS)
    agg = rng.choice(aggs_for(g))
    w = rng.choice([1, 1, 2, 3, 4, 5, 8]) if kind == "n" else rng.choice([1, 2, 2, 3, 4, 6, 9])
    return dict(kind=kind, w=w, agg=agg, group=g, rows=rows, sizes=sizes)


# ------------------------------------------------------------------------------------------------
# evaluation
# ------------------------------------------------------------------------------------------------

def evaluate(case):
    """-> dict(got=[canon|['exc',name]], exp=[canon], fail=None|(batch index, kind), sig=None|signature)"""
    import c07_impl as I
    logging.disable(logging.CRITICAL)
    try:
        got = I.run_impl_steps(case)
    except Exception as e:  # construction-time failure
        return dict(got=None, exp=None, fail=(0, "construction:" + type(e).__name__), sig="C07/construction/%s/%s" % (case["agg"], type(e).__name__),
                    err=repr(e)[:300])
    exp = I.run_oracle(case)
    fail = I.compare(case, got, exp)
    sig = classify(case, fail, got) if fail else None
    return dict(got=got, exp=exp, fail=fail, sig=sig)


def nn_count(rows):
    return sum(1 for r in rows if r[2] is not None)


def classify(case, fail, got):
    import c07_impl as I
    i, fk = fail
    pre = case["rows"][:sum(case["sizes"][:i + 1])]
    if case["kind"] == "t" and pre:
        b = max(r[0] for r in pre) - case["w"] + 1
        if any(r[0] == b for r in pre) and any(r[0] < b for r in pre):
            return SIG_LOC
    if case["group"] is None and case["agg"] == "mean":
        if any(nn_count(I.window_rows(case, j)) == 0 for j in range(1, i + 2)):
            return SIG_MEAN
    if case["group"] is None and case["agg"] in ("var", "var0", "std", "var2"):
        if i < len(got) and got[i] == ["exc", "ZeroDivisionError"] and not pre:
            return SIG_VAR
    if case["agg"] == "var2":
        if case["group"] is None and nn_count(I.window_rows(case, i + 1)) <= 2:
            return SIG_DDOF
        if case["group"] is not None:
            return SIG_DDOF
    return "C07/%s/%s/%s/%s" % ("window-n" if case["kind"] == "n" else "window-value", case["group"] or "plain", case["agg"], fk)


def shrink(case, sig):
    """greedy: drop rows, merge batches, drop empty batches while the same signature is produced"""
    def fails(c):
        try:
            r = evaluate(c)
        except Exception:
            return False
        return r["sig"] == sig
    cur = json.loads(json.dumps(case))
    changed = True
    while changed:
        changed = False
        # drop a row
        pos = 0
        for bi in range(len(cur["sizes"])):
            for j in range(cur["sizes"][bi]):
                c2 = json.loads(json.dumps(cur))
                del c2["rows"][pos + j]
                c2["sizes"][bi] -= 1
                if fails(c2):
                    cur, changed = c2, True
                    break
            if changed:
                break
            pos += cur["sizes"][bi]
        if changed:
            continue
        for bi in range(len(cur["sizes"]) - 1):
            c2 = json.loads(json.dumps(cur))
            c2["sizes"][bi:bi + 2] = [c2["sizes"][bi] + c2["sizes"][bi + 1]]
            if fails(c2):
                cur, changed = c2, True
                break
    return cur


# ------------------------------------------------------------------------------------------------
# Coq text
# ------------------------------------------------------------------------------------------------
COQ_HEADER = """From Coq Require Import List ZArith QArith Qcanon Bool.
From SZ Require Import DF.Window.
Import ListNotations.
Definition q (n : Z) (d : positive) : Qc := Q2Qc (Qmake n d).
Definition R (s k : Z) (v : option Qc) := mkRow s k v.
"""


def coq_onum(v):
    from fractions import Fraction
    if v is None:
        return "ONan"
    if isinstance(v, str):
        return "OInf"
    fr = Fraction(v)
    return "(ONum (q (%d) %d))" % (fr.numerator, fr.denominator)


def coq_res(c):
    if c[0] == "exc":
        return "RExc"
    if c[0] == "s":
        return "(RScal %s)" % coq_onum(c[1])
    return "(RMap [%s])" % "; ".join("((%d)%%Z, %s)" % (int(k), coq_onum(v)) for k, v in c[1])


def coq_row(r):
    v = "None" if r[2] is None else "(Some (q (%d) 1))" % r[2]
    return "(R (%d) (%d) %s)" % (r[0], r[1], v)


def in_model(case):
    return case["agg"] in MODEL_AGGS


def coq_case(name, case, got):
    bs = "[" + "; ".join("[" + "; ".join(coq_row(r) for r in b) + "]" for b in D.batches_of(case["rows"], case["sizes"])) + "]"
    obs = "[" + "; ".join(coq_res(c) for c in got) + "]"
    grp = {None: "0", "col": "1", "ser": "2"}[case["group"]]
    return "Definition %s := mkCase %s (%d)%%Z %s %s %s %s.\n" % (
        name, "true" if case["kind"] == "n" else "false", case["w"], MODEL_AGGS[case["agg"]], grp, bs, obs)
