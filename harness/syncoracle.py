"""Model-free oracle for the synchronous family: an independent, list-level
reference of what each node kind must emit / hold, evaluated on the arrivals
the IMPLEMENTATION actually delivered (from the call log).  Together with the
edge-consistency check this decides C01 / C10 / C05 / C16 on real traces and
produces concrete replays.

An arrival is (port, value, md) with md = tuple of (id, has_ref).
"""
from collections import Counter, OrderedDict

from symbols import Boom, deep_sum, fn1, fn2, fnN, keyfn, pred, val_from_json


class Flush:
    """pseudo-arrival marking a collect.flush() call"""


def freeze(v):
    if isinstance(v, list):
        return ('L',) + tuple(freeze(x) for x in v)
    if isinstance(v, tuple):
        return ('T',) + tuple(freeze(x) for x in v)
    return v


def ref_outputs(sp, arrivals, nups):
    """Expected (outputs, held) for node spec `sp` given all its arrivals so far.
    outputs: list of (value, md tuple); held: list of md tuples legitimately retained."""
    k = sp["k"]
    A = [a for a in arrivals if a is not Flush]
    if k in ("source", "union"):
        return [(x, m) for (_, x, m) in A], []
    if k == "map":
        f = fn1(sp["f"])
        return [(f(x), m) for (_, x, m) in A], []
    if k == "starmap":
        f = fnN(sp["f"])
        return [(f(*x), m) for (_, x, m) in A], []
    if k == "filter":
        p = pred(sp["p"])
        return [(x, m) for (_, x, m) in A if p(x)], []
    if k == "pluck":
        pk = sp["pick"]
        if isinstance(pk, list):
            return [(tuple(x[i] for i in pk), m) for (_, x, m) in A], []
        return [(x[pk], m) for (_, x, m) in A], []
    if k == "flatten":
        out = []
        for (_, x, m) in A:
            pieces = list(x)
            for j, y in enumerate(pieces):
                out.append((y, m if j == len(pieces) - 1 else ()))
        return out, []
    if k == "sink":
        return [], []
    if k == "accumulate":
        f = fn2(sp["f"])
        rs, ws = sp["rs"], sp["ws"]
        out = []
        have = "start" in sp
        state = val_from_json(sp["start"]) if have else None
        for (_, x, m) in A:
            if not have:
                state, res, have = x, x, True
            else:
                new = f(state, x)
                if rs:
                    res, state = state, new      # result = previous state (harness convention)
                else:
                    res = state = new
            out.append(((state, res) if ws else res, m))
        return out, []
    if k == "slice":
        start, end, step = sp["start"], sp["end"], sp["step"]
        chosen = A[slice(start, end, step)]       # the documented meaning IS python slicing
        return [(x, m) for (_, x, m) in chosen], []
    if k == "partition":
        n = sp["n"]
        kf = keyfn(sp["key"]) if sp.get("key") is not None else (lambda x: None)
        groups = OrderedDict()
        for idx, (_, x, m) in enumerate(A):
            groups.setdefault(freeze(kf(x)), []).append((idx, x, m))
        chunks = []
        held = []
        for members in groups.values():
            full = len(members) // n
            for c in range(full):
                ch = members[c * n:(c + 1) * n]
                chunks.append((ch[-1][0], tuple(x for _, x, _ in ch), tuple(i for _, _, m in ch for i in m)))
            held.extend(m for _, _, m in members[full * n:])
        chunks.sort(key=lambda c: c[0])          # a chunk leaves when its last member arrives
        return [(v, m) for _, v, m in chunks], held
    if k == "partition_unique":
        n, kf, last = sp["n"], keyfn(sp["key"]), sp["keep"] == "last"
        out = []
        cur = []                                 # list of (key, x, m) in element order
        for (_, x, m) in A:
            ky = freeze(kf(x))
            present = [e for e in cur if e[0] == ky]
            if last:
                cur = [e for e in cur if e[0] != ky] + [(ky, x, m)]
            elif not present:
                cur.append((ky, x, m))
            if len(cur) == n:
                out.append((tuple(e[1] for e in cur), tuple(i for e in cur for i in e[2])))
                cur = []
        return out, [e[2] for e in cur]
    if k == "sliding_window":
        n, partial = sp["n"], sp["partial"]
        out = []
        for i in range(len(A)):
            w = A[max(0, i - n + 1):i + 1]
            if partial or len(w) == n:
                out.append((tuple(x for _, x, _ in w), tuple(i2 for _, _, m in w for i2 in m)))
        # after a full window left, its oldest member is let go: at most n-1 stay
        keep = A[-(n - 1):] if n > 1 else []
        if not partial and len(A) < n:
            keep = A
        if partial and len(A) < n:
            keep = A
        return out, [m for _, _, m in keep]
    if k == "unique":
        ms = sp["maxsize"] or None
        kf = keyfn(sp["key"])
        recent = []                              # most recent last
        out = []
        for (_, x, m) in A:
            ky = freeze(kf(x))
            if ky in recent:
                recent.remove(ky)
                recent.append(ky)
            else:
                out.append((x, m))
                recent.append(ky)
                if ms and len(recent) > ms:
                    recent = recent[-ms:]
        return out, []
    if k == "collect":
        out = []
        pend = []
        for a in arrivals:
            if a is Flush:
                out.append((tuple(x for _, x, _ in pend), tuple(i for _, _, m in pend for i in m)))
                pend = []
            else:
                pend.append(a)
        return out, [m for _, _, m in pend]
    if k == "zip":
        lits = [(p, val_from_json(v)) for p, v in sp.get("literals", [])]
        per = [[] for _ in range(nups)]
        for idx, (p, x, m) in enumerate(A):
            per[p].append((idx, x, m))
        ntup = min(len(q) for q in per) if per else 0
        tuples = []
        for j in range(ntup):
            members = [per[p][j] for p in range(nups)]
            vals = [x for _, x, _ in members]
            for pos, v in lits:
                vals.insert(pos, v)
            tuples.append((max(i for i, _, _ in members), tuple(vals), tuple(i for _, _, m in members for i in m)))
        tuples.sort(key=lambda t: t[0])
        held = [m for p in range(nups) for _, _, m in per[p][ntup:]]
        return [(v, m) for _, v, m in tuples], held
    if k == "combine_latest":
        eo = sp.get("emit_on")
        latest = [None] * nups
        out = []
        for (p, x, m) in A:
            latest[p] = (x, m)
            if all(l is not None for l in latest) and (eo is None or p in eo):
                out.append((tuple(l[0] for l in latest), tuple(i for l in latest for i in l[1])))
        return out, [l[1] for l in latest if l is not None]
    if k == "zip_latest":
        latest = [None] * nups
        pending = []
        out = []
        for (p, x, m) in A:
            if p == 0:
                pending.append((x, m))
                latest[0] = (x, m)
            else:
                latest[p] = (x, m)
            if all(l is not None for l in latest):
                for (x0, m0) in pending:
                    out.append(((x0,) + tuple(l[0] for l in latest[1:]),
                                tuple(m0) + tuple(i for l in latest[1:] for i in l[1])))
                pending = []
        return out, [m for _, m in pending] + [l[1] for l in latest[1:] if l is not None]
    raise KeyError(k)


def param_class(sp):
    k = sp["k"]
    if k == "slice":
        return "start%%step=%s,end=%s" % ("0" if (sp["start"] or 0) % (sp["step"] or 1) == 0 else "nz",
                                          "none" if sp["end"] is None else ("0" if sp["end"] == 0 else "pos"))
    if k in ("partition", "sliding_window", "partition_unique"):
        return "n=%s" % ("1" if sp["n"] == 1 else ">1")
    if k == "unique":
        return "maxsize=%s" % ("none" if not sp["maxsize"] else "set")
    if k == "zip":
        return "literals" if sp.get("literals") else "plain"
    if k == "combine_latest":
        return "emit_on" if sp.get("emit_on") is not None else "all"
    return "-"


def effective_nodes(case):
    """node specs with the feedback edges added as (last) upstreams of their targets"""
    if not case.get("fb"):
        return case["nodes"]
    nodes = [dict(sp) for sp in case["nodes"]]
    for (a, b) in case["fb"]:
        nodes[b]["ups"] = list(nodes[b].get("ups", [])) + [a]
    return nodes


def cycle_nodes(case):
    """nodes that lie on a cycle (they can be re-entered while one of their own emissions is in progress)"""
    if not case.get("fb"):
        return set()
    nodes = effective_nodes(case)
    N = len(nodes)
    succ = {i: set() for i in range(N)}
    for d, sp in enumerate(nodes):
        for u in sp.get("ups", []):
            succ[u].add(d)

    def reach(a):
        seen, todo = set(), [a]
        while todo:
            x = todo.pop()
            for y in succ[x]:
                if y not in seen:
                    seen.add(y)
                    todo.append(y)
        return seen
    return {i for i in range(N) if i in reach(i)}


def check_case(case, obs, diag, want=("C01", "C10", "C05")):
    """Returns list of (prop, signature, message). Only meaningful for fault-free cases."""
    nodes = effective_nodes(case)
    cyc = cycle_nodes(case)
    N = len(nodes)
    findings = []
    downs = {i: [] for i in range(N)}
    for d, sp in enumerate(nodes):
        for u in sp.get("ups", []):
            downs[u].append(d)
    arrivals = {i: [] for i in range(N)}        # including Flush markers
    edges = {}                                   # (u, d) -> list of (val, md)
    emitted_ext = {i: [] for i in range(N)}
    detached = {i for i, sp in enumerate(nodes) if sp["k"] == "slice" and sp["end"] == 0}
    slice_count = {}
    refs_seen = set()
    zero_after = set()
    if diag.get("nonflat"):
        node, rep = diag["nonflat"][0]
        findings.append(("C10", "C10/nonflat/%s" % nodes[node]["k"],
                         "metadata delivered to node %d (%s) is not a flat list of dicts: %s" % (node, nodes[node]["k"], rep)))
    for ei, (ev, o) in enumerate(zip(case["events"], obs)):
        if o["raised"]:
            findings.append(("C01", "C01/unexpected-exception/%s" % o.get("exc"),
                             "event %d raised %s although no user function fails" % (ei, o.get("exc"))))
            return findings
        if ev[0] == "emit":
            md = tuple((i, bool(r)) for i, r in ev[3])
            emitted_ext[ev[1]].append((val_from_json(ev[2]), md))
            for i, r in ev[3]:
                # the property speaks about elements pushed into a pipeline: an entry point with no
                # attached consumer (none built, or its only consumer, a finished slice, detached) never
                # retains or releases, so there is nothing to complete
                if r and [d for d in downs[ev[1]] if d not in detached]:
                    refs_seen.add(i)
        else:
            arrivals[ev[1]].append(Flush)
        # --- sibling order inside this event: children of each call appear as repetitions of the
        #     attachment-ordered downstream list of the emitting node
        per_src = {}                              # src -> [(parent call, dst)] in time order
        parent_of_depth = {}
        for ci, (dep, src, dst, x, mids) in enumerate(o["calls"]):
            parent = parent_of_depth.get(dep - 1, "root") if dep > 0 else "root"
            per_src.setdefault(src, []).append((parent, dst))
            parent_of_depth[dep] = ci
            for dd in [k for k in parent_of_depth if k > dep]:
                del parent_of_depth[dd]
            arrivals[dst].append((nodes[dst].get("ups", []).index(src) if src in nodes[dst].get("ups", []) else -1,
                                  x, tuple(mids)))
            edges.setdefault((src, dst), []).append((x, tuple(mids)))
            if src not in nodes[dst].get("ups", []):
                findings.append(("C01", "C01/delivery-off-edge", "node %d delivered to %d which is not its downstream" % (src, dst)))
        if True:
            for src, lst0 in per_src.items():
              # one round per call of src's update; with a feedback edge rounds of nested calls interleave, so group
              # the deliveries by the call they belong to
              groups = {}
              for (par, d) in lst0:
                  groups.setdefault(par, []).append((par, d))
              for lst in groups.values():
                  i = 0
                  while i < len(lst):
                      att_now = [d for d in downs[src] if d not in detached]
                      if src in cyc:
                          # an emission serves the downstreams attached when it STARTED; a slice that finished during a
                          # nested emission is still called (and ignores the element): a round is a maximal run in
                          # attachment order that contains every downstream still attached
                          j = i + 1
                          pos = lambda d: downs[src].index(d) if d in downs[src] else -1
                          while j < len(lst) and pos(lst[j][1]) > pos(lst[j - 1][1]):
                              j += 1
                          rnd_c = [d for _, d in lst[i:j]]
                          # (groups of nested calls are not visited in time order: finite slices, which come and go, are
                          #  not required)
                          need = {d for d in att_now if not (nodes[d]["k"] == "slice" and nodes[d]["end"] is not None)}
                          if not need <= set(rnd_c) or any(pos(d) < 0 for d in rnd_c):
                              if "C01" in want:
                                  findings.append(("C01", "C01/sibling-order/%s" % nodes[src]["k"],
                                                   "event %d: node %d (%s, on a feedback cycle) called downstreams %s, attached ones in attachment order are %s"
                                                   % (ei, src, nodes[src]["k"], rnd_c, att_now)))
                              break
                          for d in rnd_c:
                              if nodes[d]["k"] == "slice" and nodes[d]["end"] is not None:
                                  slice_count[d] = slice_count.get(d, 0) + 1
                                  if slice_count[d] >= nodes[d]["end"]:
                                      detached.add(d)
                          i = j
                          continue
                      rnd = lst[i:i + len(att_now)]
                      if not att_now or [d for _, d in rnd] != att_now or len({p for p, _ in rnd}) > 1:
                          if "C01" in want:
                            findings.append(("C01", "C01/sibling-order/%s" % nodes[src]["k"],
                                           "event %d: node %d (%s) called downstreams %s, attachment order of the attached ones is %s"
                                           % (ei, src, nodes[src]["k"], [d for _, d in lst], att_now)))
                          break
                      for _, d in rnd:
                          if nodes[d]["k"] == "slice" and nodes[d]["end"] is not None:
                              slice_count[d] = slice_count.get(d, 0) + 1
                              if slice_count[d] >= nodes[d]["end"]:
                                  detached.add(d)
                      i += len(att_now)
        # --- per node: emitted == reference(arrivals)
        held_total = Counter()
        for u, sp in enumerate(nodes):
            if sp["k"] == "source" and not sp.get("ups"):
                exp_out, held = list(emitted_ext[u]), []
            else:
                try:
                    exp_out, held = ref_outputs(sp, arrivals[u], len(sp.get("ups", [])))
                except Exception as e:      # the reference itself cannot evaluate (ill-typed case)
                    findings.append(("GEN", "GEN/ill-typed", "reference semantics failed at node %d: %r" % (u, e)))
                    return findings
            for m in held:
                for (i, r) in m:
                    if r:
                        held_total[i] += 1
            for d in downs[u]:
                got = edges.get((u, d), [])
                exp = exp_out
                dsp = nodes[d]
                if dsp["k"] == "slice" and dsp["end"] is not None:
                    # the slice stopped listening after `end` arrivals
                    tot = sum(len(edges.get((uu, d), [])) for uu in dsp.get("ups", []))
                    exp = exp_out[:len(got)] if tot >= dsp["end"] else exp_out
                    if dsp["end"] == 0:
                        exp = []
                    if u in cyc and tot >= dsp["end"] and dsp["end"] != 0:
                        # a node on a cycle serves a later sibling's nested emission first: what the slice took before it
                        # stopped listening is SOME `len(got)` of the node's outputs, not the first ones
                        pool = Counter(repr(e[0]) for e in exp_out)
                        if all(pool[k_] >= n_ for k_, n_ in Counter(repr(g[0]) for g in got).items()):
                            mpool = Counter(repr((e[0], tuple(e[1]))) for e in exp_out)
                            if all(mpool[k_] >= n_ for k_, n_ in Counter(repr((g[0], tuple(g[1]))) for g in got).items()):
                                continue
                            exp = [e for e in exp_out if any(repr(e[0]) == repr(g[0]) for g in got)][:len(got)]
                multi_out = sp["k"] in ("flatten", "zip_latest")
                if u in cyc and sp["k"] == "zip_latest":
                    # a zip_latest that is re-entered in the middle of draining its backlog pairs the remaining backlog
                    # with slots the nested arrival has already replaced: no list-level meaning is documented for that
                    continue
                if u in cyc and downs[u] and (d != downs[u][0] or multi_out):
                    # a node on a cycle can be re-entered while it is still serving its downstreams: later siblings see
                    # the nested emission first (and a one-to-many node emits the nested element's pieces before the
                    # remaining pieces of the outer one); same (value, metadata) pairs, as multisets
                    ks = lambda l: sorted(repr(x) for x in l)
                    if "C10" in want and ks([(g[0], tuple(g[1])) for g in got]) != ks([(e[0], tuple(e[1])) for e in exp]) \
                            and ks([g[0] for g in got]) == ks([e[0] for e in exp]):
                        findings.append(("C10", "C10/md-exact/%s" % sp["k"],
                                         "after event %d: node %d (%s, on a feedback cycle) sent %r to node %d, contributors give %r (as multisets)"
                                         % (ei, u, sp["k"], got[:8], d, exp[:8])))
                        break
                    if "C01" in want and ks([g[0] for g in got]) != ks([e[0] for e in exp]):
                        findings.append(("C01", "C01/node-sem/%s/%s" % (sp["k"], param_class(sp)),
                                         "after event %d: node %d (%s, on a feedback cycle) sent %r to node %d, list-level meaning of its arrivals is %r (as multisets)"
                                         % (ei, u, sp["k"], [g[0] for g in got][:12], d, [e[0] for e in exp][:12])))
                        break
                    continue
                if "C01" in want and [g[0] for g in got] != [e[0] for e in exp]:
                    findings.append(("C01", "C01/node-sem/%s/%s" % (sp["k"], param_class(sp)),
                                     "after event %d: node %d (%s %s) sent %r to node %d, list-level meaning of its arrivals is %r"
                                     % (ei, u, sp["k"], {k: v for k, v in sp.items() if k not in ("k", "ups")},
                                        [g[0] for g in got][:12], d, [e[0] for e in exp][:12])))
                    break
                if "C10" in want and [tuple(g[1]) for g in got] != [tuple(e[1]) for e in exp]:
                    findings.append(("C10", "C10/md-exact/%s" % sp["k"],
                                     "after event %d: node %d (%s) attached metadata %r, contributors carry %r"
                                     % (ei, u, sp["k"], [[i for i, _ in g[1]] for g in got][:12],
                                        [[i for i, _ in e[1]] for e in exp][:12])))
                    break
        # --- C05 balance at this quiescent point
        if "C05" in want:
            for r in range(case["nrc"]):
                c = o["counts"][r]
                if c < 0:
                    findings.append(("C05", "C05/negative", "after event %d counter %d is %d" % (ei, r, c)))
                if c != held_total.get(r, 0):
                    holders = [(u, nodes[u]["k"]) for u in range(N)
                               if any(i == r for m in _held_of(nodes[u], arrivals[u]) for (i, _) in m)]
                    kinds = sorted({k for _, k in holders}) or ["none"]
                    # which node kinds touched this element at all
                    touched = sorted({nodes[d]["k"] for d in range(N)
                                      if any(a is not Flush and any(i == r for i, _ in a[2]) for a in arrivals[d])})
                    findings.append(("C05", "C05/imbalance/%s/holders=%s" % ("high" if c > held_total.get(r, 0) else "low", "+".join(kinds)),
                                     "after event %d counter %d = %d but %d legitimate holder(s) %s; element passed through %s"
                                     % (ei, r, c, held_total.get(r, 0), holders, touched)))
                    break
                if c == 0 and r in refs_seen:
                    nfire = o["fired"].count(r)
                    if nfire != 1:
                        findings.append(("C05", "C05/callback-count/%d" % min(nfire, 2),
                                         "after event %d counter %d is 0 and its callback fired %d times" % (ei, r, nfire)))
                    zero_after.add(r)
                elif c != 0 and r in zero_after:
                    findings.append(("C05", "C05/rise-after-zero", "counter %d rose to %d after having returned to zero" % (r, c)))
                if c > 0 and r in o["fired"]:
                    findings.append(("C05", "C05/fired-while-held", "counter %d fired its callback but count is %d" % (r, c)))
        if "C04" in want:
            for r in range(case["nrc"]):
                if o["counts"][r] > 0 and r in o["fired"]:
                    holders = sorted({nodes[u]["k"] for u in range(N)
                                      if any(i == r for m in _held_of(nodes[u], arrivals[u]) for (i, _) in m)}) or ["none"]
                    findings.append(("C04", "C04/early-callback/sync-holder",
                                     "after event %d the callback of counter %d has fired although the element is still held by %s (count %d)"
                                     % (ei, r, "+".join(holders), o["counts"][r])))
                    break
        if findings:
            return findings
    return findings


def _held_of(sp, arrivals):
    try:
        return ref_outputs(sp, arrivals, len(sp.get("ups", [])))[1]
    except Exception:
        return []
