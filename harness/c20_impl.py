"""C20 drivers: build ONE pipeline spec twice - locally (`Stream` nodes) and on Dask (`scatter()` + DaskStream nodes +
`gather()`) - and run both on the stepped virtual loop; the Dask one against fakes/dask_client.FakeClient whose
completion order the schedule controls.

case = {"stages": [stage...], "inputs": [[val_json, has_ref]...], "sched": {"seed": int, "mode": str, "p_emit": float}}
stage (leaf) = {"k":"map","f":sym,"style":"closure"|"arg"|"kw"} | {"k":"starmap","f":sym|["NSumK",k]}
             | {"k":"accumulate","f":sym|["BAddK",k],"start":null|{"v":val_json},"rs":bool,"ws":bool}
             | {"k":"partition","n":n} | {"k":"sliding_window","n":n,"partial":bool} | {"k":"buffer","n":n}
stage (join) = {"k":"zip"|"union","a":[leaf...],"b":[leaf...]}   both branches start at the same upstream; a non-empty
schedule actions (recorded in the observation): ["emit", i] | ["done", task_id]
"""
import logging
import random

import vloop
import symbols
from symbols import val_from_json, val_to_json, deep_sum

logging.disable(logging.CRITICAL)


# ---- user functions (module level so a real cluster can pickle them) ------------------------------------------
def addk_pos(x, k):
    return symbols._need_int(x) + k


def addk_kw(x, k=0):
    return symbols._need_int(x) + k


def nsum_kw(*a, k=0):
    return deep_sum(a) + k


def badd_kw(acc, x, k=0):
    return symbols._need_int(acc) + deep_sum(x) + k


class RS:
    """returns_state wrapper: f -> (new state, (old state, new state))"""

    def __init__(self, f):
        self.f = f

    def __call__(self, acc, x, **kw):
        s = self.f(acc, x, **kw)
        return (s, (acc, s))


class Sym1:
    def __init__(self, sym):
        self.sym = sym

    def __call__(self, x):
        return symbols.fn1(self.sym)(x)


class Sym2:
    def __init__(self, sym):
        self.sym = sym

    def __call__(self, acc, x):
        return symbols.fn2(self.sym)(acc, x)


class SymN:
    def __init__(self, sym):
        self.sym = sym

    def __call__(self, *a):
        return symbols.fnN(self.sym)(*a)


def attach_leaf(s, st):
    k = st["k"]
    if k == "map":
        sym = st["f"]
        style = st.get("style", "closure")
        if style == "arg":
            assert sym[0] == "FAddK"
            return s.map(addk_pos, sym[1])
        if style == "kw":
            assert sym[0] == "FAddK"
            return s.map(addk_kw, k=sym[1])
        return s.map(Sym1(sym))
    if k == "starmap":
        sym = st["f"]
        if sym[0] == "NSumK":
            return s.starmap(nsum_kw, k=sym[1])
        return s.starmap(SymN(sym))
    if k == "accumulate":
        sym = st["f"]
        kw = {}
        if sym[0] == "BAddK":
            f = badd_kw
            kw["k"] = sym[1]
        else:
            f = Sym2(sym)
        if st.get("rs"):
            f = RS(f)
            kw["returns_state"] = True
        if st.get("ws"):
            kw["with_state"] = True
        if st.get("start") is not None:
            kw["start"] = val_from_json(st["start"]["v"])
        return s.accumulate(f, **kw)
    if k == "partition":
        return s.partition(st["n"])
    if k == "sliding_window":
        return s.sliding_window(st["n"], return_partial=st["partial"])
    if k == "buffer":
        return s.buffer(st["n"])
    raise KeyError(k)


def attach(s, stages):
    for st in stages:
        if st["k"] in ("zip", "union"):
            a = s
            for l in st["a"]:
                a = attach_leaf(a, l)
            b = s
            for l in st["b"]:
                b = attach_leaf(b, l)
            s = a.zip(b, maxsize=1000) if st["k"] == "zip" else a.union(b)
        else:
            s = attach_leaf(s, st)
    return s


class ImmediateLoop:
    @staticmethod
    def add_callback(cb, *a, **k):
        cb(*a, **k)


def settle(loop):
    """vloop.settle gives up after 50 consecutive non-blocking iterations (its busy-wait detection).  Long chains of
    future callbacks (dozens of gather coroutines resuming one after the other) look the same, and nothing in these
    pipelines busy-waits, so keep settling until the loop really ran dry."""
    for _ in range(400):
        loop.spun = False
        loop.settle()
        if not loop.spun:
            return


class Run:
    """one pipeline on one virtual loop"""

    def __init__(self, case, dask, client_factory=None):
        self.case = case
        self.dask = dask
        self.loop = vloop.fresh()
        self.sunk = []
        self.fired = []           # (input index, number of sink deliveries at that moment)
        self.counters = {}
        self.emit_state = None    # state of the LAST emit: None | 'pending' | 'done' | 'failed:<cls>'
        self.emit_states = {}     # emit index -> state (several can be pending when the producer does not await)
        self.errors = []
        self.client = None
        self._saved = None
        self.client_factory = client_factory

    def build(self):
        from streamz import Stream
        if self.dask:
            import streamz.dask as sd
            from fakes.dask_client import FakeClient
            self.client = (self.client_factory or FakeClient)()
            self._saved = sd.default_client
            client = self.client
            sd.default_client = lambda: client
        self.source = Stream(asynchronous=True)
        s = self.source.scatter() if self.dask else self.source
        s = attach(s, self.case["stages"])
        s = s.gather()
        run = self
        self.gather_done = []     # arrival numbers of gather.update coroutines, in the order they completed
        if self.dask:
            orig_update = s.update
            narr = [0]

            def upd(x, who=None, metadata=None):
                k = narr[0]
                narr[0] += 1
                fut = orig_update(x, who=who, metadata=metadata)
                try:
                    fut.add_done_callback(lambda f, k=k: run.gather_done.append(k))
                except AttributeError:
                    run.gather_done.append(k)
                return fut
            s.update = upd
        self.sink = s.sink(lambda x: run.sunk.append(x))
        self.last_md = {}         # input id -> number of deliveries when the last result carrying its metadata arrived
        orig_sink_update = self.sink.update

        def sink_update(x, who=None, metadata=None):
            r = orig_sink_update(x, who=who, metadata=metadata)
            for m in (metadata or []):
                if isinstance(m, dict) and "id" in m:
                    run.last_md[m["id"]] = len(run.sunk)
            return r
        self.sink.update = sink_update

    def counter(self, i):
        from streamz.core import RefCounter
        if i not in self.counters:
            self.counters[i] = RefCounter(initial=0, cb=(lambda i=i: self.fired.append((i, len(self.sunk)))),
                                          loop=ImmediateLoop())
        return self.counters[i]

    def emit(self, i):
        vj, has_ref = self.case["inputs"][i]
        md = [{"id": i, "ref": self.counter(i)}] if has_ref else None
        self.emit_state = 'pending'
        self.emit_states[i] = 'pending'

        def setst(st):
            self.emit_states[i] = st
            if i == max(self.emit_states):
                self.emit_state = st
            if st.startswith('failed'):
                self.emit_state = st

        def go():
            try:
                fut = self.source.emit(val_from_json(vj), metadata=md)
            except Exception as e:
                setst('failed:' + type(e).__name__)
                self.errors.append(repr(e))
                return

            async def waiter():
                try:
                    await fut
                    setst('done')
                except Exception as e:
                    setst('failed:' + type(e).__name__)
                    self.errors.append(repr(e))
            self.loop.create_task(waiter())
        self.loop.call_soon(go)
        settle(self.loop)

    def done(self, k):
        ok = []
        self.loop.call_soon(lambda: ok.append(self.client.task_done(k)))
        settle(self.loop)
        return ok and ok[0]

    def close(self):
        try:
            self.sink.destroy()
        except Exception:
            pass
        if self._saved is not None:
            import streamz.dask as sd
            sd.default_client = self._saved
        vloop.dispose(self.loop)

    def counts(self):
        n = len(self.case["inputs"])
        return [self.counters[i].count if i in self.counters else None for i in range(n)]


def run_local(case):
    """awaited producer on the local pipeline; returns observation dict"""
    r = Run(case, dask=False)
    try:
        r.loop.call_soon(r.build)
        settle(r.loop)
        per_emit = []
        stalled = False
        for i in range(len(case["inputs"])):
            if r.emit_state == 'pending':
                stalled = True
                break
            r.emit(i)
            per_emit.append(len(r.sunk))
            if case.get("keep_going") and r.emit_state and r.emit_state.startswith('failed'):
                r.emit_state = None          # the producer catches the exception and carries on
        return {"sunk": [val_to_json(v) for v in r.sunk], "fired": [list(f) for f in r.fired], "counts": r.counts(),
                "stalled": stalled or r.emit_state == 'pending', "errors": r.errors, "after_emit": per_emit,
                "emit_state": r.emit_state, "emit_states": {str(k): v for k, v in r.emit_states.items()}}
    finally:
        r.close()


def run_dask(case, actions=None, awaited=True):
    """Dask pipeline over the fake client.  The schedule is produced online by the seeded policy in case['sched'] (or
    replayed from `actions`); every step is recorded: [action, deliveries since the previous step]."""
    sched = case.get("sched", {"seed": 0, "mode": "random", "p_emit": 0.5})
    if actions is None and sched.get("actions") is not None:
        actions = sched["actions"]           # scripted schedule (corpus)
    # aw[i]: the producer waits for emit i to complete before it emits input i+1
    aw = sched.get("await")
    if aw is None:
        aw = [awaited] * len(case["inputs"])
    rng = random.Random(sched.get("seed", 0))
    mode = sched.get("mode", "random")
    p_emit = sched.get("p_emit", 0.5)
    r = Run(case, dask=True)
    steps = []
    try:
        r.loop.call_soon(r.build)
        settle(r.loop)
        n = len(case["inputs"])
        nxt = 0
        seen = 0
        stalled = False
        guard = 0
        max_pending = 0
        replay = list(actions) if actions is not None else None
        while True:
            guard += 1
            if guard > 2000:
                stalled = True
                break
            if replay is not None and not replay:
                replay = None                      # scripted prefix done: the seeded policy finishes the run
            if replay is not None:
                act = replay.pop(0)
                if act[0] == "emit" and act[1] >= n:
                    continue
            else:
                can_emit = nxt < n and (nxt == 0 or not aw[nxt - 1] or r.emit_states.get(nxt - 1) != 'pending')
                elig = r.client.eligible()
                if not can_emit and not elig:
                    if nxt < n or any(v == 'pending' for v in r.emit_states.values()):
                        stalled = True
                    break
                if can_emit and elig:
                    do_emit = rng.random() < p_emit
                else:
                    do_emit = can_emit
                if do_emit:
                    act = ["emit", nxt]
                else:
                    if mode == "lifo":
                        k = elig[-1]
                    elif mode == "fifo":
                        k = elig[0]
                    else:
                        k = rng.choice(elig)
                    act = ["done", k]
            if act[0] == "emit":
                r.emit(act[1])
                nxt = act[1] + 1
                max_pending = max(max_pending, sum(1 for v in r.emit_states.values() if v == 'pending'))
            else:
                if not r.done(act[1]):
                    steps.append([act, None])      # not eligible in this run (replay on a different tree)
                    if replay is None:
                        stalled = True
                        break
                    continue
            steps.append([act, [val_to_json(v) for v in r.sunk[seen:]], len(r.fired)])
            seen = len(r.sunk)
            if r.emit_state and r.emit_state.startswith('failed'):
                if case.get("keep_going"):
                    r.emit_state = None             # the producer catches the exception and carries on
                    continue
                break                               # the pipeline raised into the producer: stop here
        log = list(r.client.log)
        return {"sunk": [val_to_json(v) for v in r.sunk], "fired": [list(f) for f in r.fired], "counts": r.counts(),
                "stalled": stalled, "errors": r.errors, "steps": steps, "ntasks": len(r.client.futures),
                "unfinished": r.client.unfinished(), "emit_state": r.emit_state,
                "emit_states": {str(k): v for k, v in r.emit_states.items()},
                "overtaken": r.gather_done != sorted(r.gather_done), "max_pending_emits": max_pending,
                "last_md": {str(k): v for k, v in r.last_md.items()},
                "nsubmit": sum(1 for e in log if e[0] == 'submit')}
    finally:
        r.close()


if __name__ == "__main__":
    import json
    import sys
    case = json.loads(sys.argv[1])
    print(run_local(case))
    print(run_dask(case))
