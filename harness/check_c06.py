"""C06: streaming dataframe aggregations equal pandas on everything seen so far.

proof cone (Props/C06.v) + exhaustive/random batch sequences driven through the REAL streaming dataframe API,
a model-free pandas oracle on pd.concat(batches[:k]), and the Coq correspondence (as-found / repaired variants)."""
import json
import multiprocessing as mp
import os
import random
import sys
import time

sys.path.insert(0, os.path.dirname(os.path.abspath(__file__)))
import common
import df_common as dfc
import c06_impl as ci
import c06_coq

MEAN_FAM = ("s.mean", "es.mean")
VAR_FAM = ("es.var0", "es.var1", "es.std1", "es.std0")
GROUPED = [a for a in ci.AGG_IDS if a.startswith(("gc.", "gs.", "vc."))]
REDUCTIONS = [a for a in ci.AGG_IDS if a not in GROUPED]


def mk(agg, rows, sizes, filt=None, dtype="float", ex="row"):
    return {"agg": agg, "rows": rows, "sizes": sizes, "filt": filt, "dtype": dtype, "ex": ex}


def gen_cases(tier, rng):
    cases = []
    T = ci.TABLES
    thorough = tier == "thorough"
    # 1. exhaustive: every composition (+ inserted empty batches) of the 5-row NaN table, every aggregation,
    #    with and without an upstream filter that empties batches
    for i, sizes in enumerate(dfc.all_splits(len(T["nan-first"]))):
        for a in ci.AGG_IDS:
            cases.append(mk(a, T["nan-first"], sizes))
            if thorough or i % 2 == 0 or a in MEAN_FAM + VAR_FAM:
                cases.append(mk(a, T["nan-first"], sizes, filt=1))
            if a.startswith("gs.") and (thorough or i % 3 == 0):
                # grouper = a streaming series of the unfiltered frame, built before / after the grouped frame
                for gsrc in ("early", "late"):
                    c = mk(a, T["nan-first"], sizes, filt=1)
                    c["gsrc"] = gsrc
                    cases.append(c)
    # 2. exhaustive on the 6-row vanishing/re-entering key table for the keyed aggregations
    sp6 = dfc.all_splits(len(T["vanish"]))
    for i, sizes in enumerate(sp6):
        for a in GROUPED:
            cases.append(mk(a, T["vanish"], sizes))
        if thorough or i % 4 == 0:
            for a in REDUCTIONS:
                cases.append(mk(a, T["vanish"], sizes))
        if thorough:
            for a in ci.AGG_IDS:
                cases.append(mk(a, T["vanish"], sizes, filt=1))
    # 3. integer dtype (no NaN)
    for i, sizes in enumerate(dfc.all_splits(len(T["dense"]))):
        if thorough or i % 2 == 0:
            for a in ci.AGG_IDS:
                cases.append(mk(a, T["dense"], sizes, dtype="int"))
                if thorough:
                    cases.append(mk(a, T["dense"], sizes))
    # 4. a column that is NaN throughout
    for sizes in dfc.all_splits(len(T["x-all-nan"])):
        for a in ci.AGG_IDS:
            cases.append(mk(a, T["x-all-nan"], sizes))
    # 5. empty `example` (as in streamz' own tests) for every aggregation
    for a in ci.AGG_IDS:
        for sizes in ([2, 3], [0, 5], [1, 0, 4]):
            cases.append(mk(a, T["nan-first"], sizes, ex="empty"))
    # 6. random larger tables / splits
    nrand = 400 if not thorough else 6000
    for _ in range(nrand):
        cases.append(random_case(rng))
    return cases


def random_case(rng, aggs=None):
    n = rng.randint(0, 12)
    nanp = rng.choice([0.0, 0.2, 0.5])
    rows = []
    for _ in range(n):
        x = None if rng.random() < nanp else rng.randint(0, 6)
        y = None if rng.random() < nanp else rng.randint(-3, 3)
        k = None if rng.random() < 0.15 else rng.choice([1, 1, 2, 3, 5])
        rows.append([x, y, k])
    sizes, left = [], n
    while left > 0:
        if rng.random() < 0.25:
            sizes.append(0)
            continue
        s = rng.randint(1, min(left, 4))
        sizes.append(s)
        left -= s
    if rng.random() < 0.3:
        sizes.append(0)
    if not sizes:
        sizes = [0]
    filt = rng.choice([None, None, 0, 2])
    a = rng.choice(aggs or ci.AGG_IDS)
    dense = all(v is not None for r in rows for v in r)
    dtype = "int" if dense and rows and rng.random() < 0.3 else "float"
    c = mk(a, rows, sizes, filt=filt, dtype=dtype)
    if a.startswith("gs.") and rng.random() < 0.5:
        c["gsrc"] = rng.choice(["early", "late"])
    return c


def nontrivial(case):
    """state carried across a batch boundary: >= 2 batches of which >= 1 non-empty after the first position,
    and at least one non-empty prefix"""
    nz = [i for i, s in enumerate(case["sizes"]) if s > 0]
    return len(case["sizes"]) >= 2 and len(nz) >= 1 and (len(nz) >= 2 or nz[0] > 0)


def shrink(case, sig):
    """drop rows / merge batches / drop empties / drop the filter while the same oracle signature persists"""
    def fails(c):
        r = ci.check(c)
        return any(s == sig for s, _, _ in r["findings"])

    cur = json.loads(json.dumps(case))
    changed = True
    while changed:
        changed = False
        # remove one row
        pos = 0
        for bi, s in enumerate(list(cur["sizes"])):
            for j in range(s):
                c2 = json.loads(json.dumps(cur))
                del c2["rows"][pos + j]
                c2["sizes"][bi] -= 1
                if fails(c2):
                    cur, changed = c2, True
                    break
            if changed:
                break
            pos += s
        if changed:
            continue
        # merge adjacent batches / drop a batch of size 0
        for bi in range(len(cur["sizes"]) - 1):
            c2 = json.loads(json.dumps(cur))
            c2["sizes"][bi:bi + 2] = [c2["sizes"][bi] + c2["sizes"][bi + 1]]
            if fails(c2):
                cur, changed = c2, True
                break
        if changed:
            continue
        if cur.get("filt") is not None:
            c2 = json.loads(json.dumps(cur))
            c2["filt"] = None
            if fails(c2):
                cur, changed = c2, True
    return cur


def run(prop, tier, seed, replay=None):
    out = common.Outcome(prop, tier, seed)
    proof = common.props_check(prop)
    common.coq_make(["theories/DF/AggCase.vo"])        # evaluation library of the generated case files
    rng = random.Random(seed * 1000003 + 6)
    if replay:
        cases = [json.load(open(replay))["replay"]["case"]]
        ew_tasks = []
    else:
        cases = gen_cases(tier, rng)
        ew_tasks = []
        for eid in ci.EXPRS:
            for tn, rows in ci.TABLES.items():
                sp = dfc.all_splits(len(rows))
                for i, sizes in enumerate(sp):
                    if tier == "thorough" or i % 6 == 0:
                        ew_tasks.append((eid, rows, sizes, "float"))
                        if tn == "dense":
                            ew_tasks.append((eid, rows, sizes, "int"))
    known = common.known_signatures(prop)

    t0 = time.time()
    with mp.Pool(common.NCPU) as pool:
        res = pool.map(ci.check, cases, chunksize=40)
        ew = pool.map(ci.check_elementwise, ew_tasks, chunksize=20) if ew_tasks else []
    t_impl = time.time() - t0

    # ---- oracle verdicts
    by_sig = {}
    for i, (c, r) in enumerate(zip(cases, res)):
        if r["crash"]:
            out.violation("C06/harness-crash", "driver crashed: %s" % r["crash"], {"case": c}, no_input=True)
            continue
        for sig, msg, k in r["findings"]:
            by_sig.setdefault(sig, []).append((i, msg))
    for (task, fnd) in zip(ew_tasks, ew):
        for sig, msg, k in fnd:
            by_sig.setdefault(sig, []).append((("elementwise", task), msg))
    nshrunk = 0
    for sig, lst in sorted(by_sig.items()):
        if sig in known:
            out.known_finding(sig, "%s (%d cases this run; e.g. %s)" % (known[sig]["what"], len(lst), lst[0][1][:160]))
            continue
        idx, msg = min(lst, key=lambda t: (len(json.dumps(cases[t[0]])) if isinstance(t[0], int) else 10 ** 6))
        if isinstance(idx, int):
            small = shrink(cases[idx], sig) if nshrunk < 4 else cases[idx]
            nshrunk += 1
            out.violation(sig, msg + " [%d cases]" % len(lst), {"case": small, "original_case": cases[idx]})
        else:
            eid, rows, sizes, dtype = idx[1]
            out.violation(sig, msg, {"case": {"elementwise": eid, "rows": rows, "sizes": sizes, "dtype": dtype}})

    # ---- correspondence with the Coq model (both variants)
    items = [(c, r["obs"]) for c, r in zip(cases, res) if r["obs"] is not None]
    t0 = time.time()
    m_af, m_rep, unenc, errors = c06_coq.correspondence(prop, items)
    t_coq = time.time() - t0
    for p, o_ in errors:
        out.violation("C06/correspondence-error", "coqc failed on generated cases: %s" % o_[-400:], {"file": p}, no_input=True)
    fam = lambda i: items[i][0]["agg"]
    s_af, s_rep = set(m_af), set(m_rep)
    broken = set(unenc)
    variant = {}
    for name, members in (("mean", MEAN_FAM), ("var", VAR_FAM)):
        a = {i for i in s_af if fam(i) in members}
        r = {i for i in s_rep if fam(i) in members}
        if not r:
            variant[name] = "repaired" if a else "indistinguishable"
        elif not a:
            variant[name] = "as_found"
        else:
            variant[name] = "neither"
            broken |= (a & r) or a
    broken |= {i for i in (s_af | s_rep) if fam(i) not in MEAN_FAM + VAR_FAM}
    # a tree matching the as-found model must be explained by a listed finding, else the defect has returned
    wit = {"mean": ("C06/series-mean/count-zero-batch-seen", "C06_mean_empty_first_refuted",
                    mk("s.mean", [[1, 0, 1], [3, 0, 1]], [0, 2])),
           "var": ("C06/raises/expanding-series-var/ZeroDivisionError/empty-prefix", "C06_var_empty_first_raises",
                   mk("es.var1", [[1, 0, 1], [3, 0, 1]], [0, 2]))}
    for name, (sig, thm, w) in wit.items():
        if variant[name] == "as_found" and sig not in known and sig not in by_sig:
            out.violation(sig, "implementation matches the as-found model (%s) although the defect is not listed as known" % thm,
                          {"case": w, "theorem": thm})
    if broken and not out.violations:
        # widened search: random cases on the disagreeing aggregations, oracle only
        aggs = sorted({fam(i) for i in broken})
        extra = [random_case(rng, aggs) for _ in range(600)]
        with mp.Pool(common.NCPU) as pool:
            res2 = pool.map(ci.check, extra, chunksize=40)
        found = False
        for c, r in zip(extra, res2):
            for sig, msg, k in r["findings"]:
                if sig not in known:
                    out.violation(sig, msg, {"case": shrink(c, sig), "found_by": "widened search after model mismatch"})
                    found = True
                    break
            if found:
                break
        if not found:
            i0 = sorted(broken)[0]
            out.violation("C06/correspondence/model-differs",
                          "Coq model (neither variant) and implementation disagree on %d of %d cases (first: %s); oracle silent after widened search"
                          % (len(broken), len(items), json.dumps(items[i0][0])),
                          {"case": items[i0][0], "observed": items[i0][1], "correspondence": "DF.AggCase.agrees",
                           "mismatching_cases": sorted(broken)[:20]}, no_input=True)
    if not proof["ok"]:
        out.violation("C06/proof/%s" % proof["failing"], "proof obligation no longer checks: %s" % proof["failing"],
                      {"theorem_or_file": proof["failing"], "log": proof["log"][-3000:]}, no_input=True)

    # ---- coverage
    hist = {}
    feat = {"empty_first": 0, "empty_middle": 0, "empty_last": 0, "filter": 0, "grouper_from_unfiltered_frame": 0, "int_dtype": 0, "empty_example": 0,
            "nan_cells": 0, "nan_keys": 0}
    nontriv = set()
    for c in cases:
        f = ci.family(c["agg"])
        hist[f] = hist.get(f, 0) + 1
        sz = c["sizes"]
        feat["empty_first"] += bool(sz and sz[0] == 0)
        feat["empty_last"] += bool(len(sz) > 1 and sz[-1] == 0)
        feat["empty_middle"] += bool(any(s == 0 for s in sz[1:-1]))
        feat["filter"] += c.get("filt") is not None
        feat["grouper_from_unfiltered_frame"] += c.get("gsrc") is not None
        feat["int_dtype"] += c.get("dtype") == "int"
        feat["empty_example"] += c.get("ex") == "empty"
        feat["nan_cells"] += any(r[0] is None or r[1] is None for r in c["rows"])
        feat["nan_keys"] += any(r[2] is None for r in c["rows"])
        if nontrivial(c):
            nontriv.add(json.dumps(c, sort_keys=True))
    nmis = len(s_af | s_rep | set(unenc))
    cov = {
        "evaluations": len(cases) + len(ew_tasks),
        "distinct_nontrivial": len(nontriv),
        "rule": "aggregation cases = (aggregation id, table of [x,y,k] rows with NaNs, split into consecutive batches incl. empty ones, optional upstream filter x>t, dtype, example kind); quick: ALL compositions (+ one empty batch at start/each gap/end, empties everywhere, two leading empties) of the 5-row NaN table for all %d aggregations with and without filter, all compositions of the 6-row vanishing-key table for keyed aggregations, int-dtype and all-NaN tables, empty `example`, plus seeded random tables (<=12 rows); non-trivial = at least two batches and state carried across a boundary (>=2 non-empty batches, or an empty batch before a non-empty one); distinct by JSON of the case.  Elementwise expression cases (%d, oracle only) are counted in evaluations only." % (len(ci.AGG_IDS), len(ew_tasks)),
        "exhaustive": False,
        "exhaustive_subspaces": ["all splits of table nan-first x all aggregations (x filter x>1 on every 2nd split; every split for mean/var)",
                                 "all splits of table vanish x keyed aggregations", "all splits of table x-all-nan x all aggregations"],
        "traces_validated_against_impl": sum(1 for i in range(len(items)) if i not in unenc and i not in (
            s_rep if variant.get("mean" if fam(i) in MEAN_FAM else "var" if fam(i) in VAR_FAM else "-") == "repaired" else s_af)),
        "disagreements_checked": nmis,
        "model_variant_matched": variant,
        "mismatch_as_found": len(m_af), "mismatch_repaired": len(m_rep), "unencodable": len(unenc),
        "oracle_signatures": {s: len(l) for s, l in by_sig.items()},
        "aggregation_family_histogram": hist,
        "feature_histogram": feat,
        "elementwise_cases": len(ew_tasks),
        "samples": [{"case": items[i][0], "observed": items[i][1]} for i in (0, len(items) // 2)] if items else [],
        "impl_seconds": round(t_impl, 2), "coq_seconds": round(t_coq, 2),
    }
    return out.finish(proof, cov)


if __name__ == "__main__":
    import argparse
    ap = argparse.ArgumentParser()
    ap.add_argument("--tier", default=common.tier_from_env())
    ap.add_argument("--replay")
    a = ap.parse_args()
    sys.exit(run("C06", a.tier, common.seed_from_env(), a.replay))
