"""Correspondence for the asynchronous single-node family: generators, Coq encoders, runner."""
import json, os, random, sys
sys.path.insert(0, os.path.dirname(os.path.abspath(__file__)))
import common, asyncfam
from symbols import coq_val, coq_sym, val_from_json, val_to_json, z
from syncfam import coq_md, coq_natlist

HEADER = """From Coq Require Import List ZArith.
From SZ Require Import Base.Values Sync.Nodes Async.Core %s.
Import ListNotations.
Close Scope Z_scope. Open Scope nat_scope.
"""

# kind -> (Coq module, model name, init expression builder)
MODELS = {
    "buffer": ("Async.Buffer", "buffer_model",
               lambda sp, sync: "(b_init %d %s, (@nil (Z * val * list mdi), @nil nat))" % (sp["n"], "true" if sync else "false")),
    "delay": ("Async.Delay", "delay_model",
              lambda sp, sync: "(d_init %s %s, (@nil (Z * val * list mdi), @nil nat))" % (z(sp["interval"]), "true" if sync else "false")),
    "rate_limit": ("Async.RateLimit", "rate_limit_model",
                   lambda sp, sync: "(r_init %s %s, (@nil (Z * val * list mdi), @nil nat))" % (z(sp["interval"]), "true" if sync else "false")),
    "timed_window": ("Async.TimedWindow", "timed_window_model",
                     lambda sp, sync: "(w_init %s %s None)" % (z(sp["interval"]), "true" if sync else "false")),
    "timed_window_unique": ("Async.TimedWindow", "timed_window_model",
                            lambda sp, sync: "(w_init %s %s (Some (interpK %s, %s)))" % (
                                z(sp["interval"]), "true" if sync else "false", coq_sym(sp["key"]),
                                "true" if sp["keep"] == "last" else "false")),
    "partition": ("Async.PartitionTO", "partition_model",
                  lambda sp, sync: "(p_init %d %s %s %s, (@nil (Z * val * list mdi), @nil nat))" % (
                      sp["n"], "None" if sp.get("timeout") is None else "(Some %s)" % z(sp["timeout"]),
                      "None" if sp.get("key") is None else "(Some (interpK %s))" % coq_sym(sp["key"]),
                      "true" if sync else "false")),
    "latest": ("Async.Latest", "latest_model",
               lambda sp, sync: "(l_init %s, (@nil (Z * val * list mdi), @nil nat))" % ("true" if sync else "false")),
    "zip": ("Async.ZipBP", "zip_model",
            lambda sp, sync: "(z_init %d %s, (@nil (Z * val * list mdi), @nil nat))" % (sp["maxsize"], "true" if sync else "false")),
    "map_async": ("Async.MapAsync", "map_async_model",
                  lambda sp, sync: "(m_init %d %s, (@nil (Z * val * list mdi), @nil nat))" % (sp["parallelism"], "true" if sync else "false")),
    "plain": ("Async.Plain", "plain_model",
              lambda sp, sync: "(pl_init %s, (@nil (Z * val * list mdi), @nil nat))" % ("true" if sync else "false")),
}


def coq_act(a):
    if a[0] == "emit":
        return "AEmit %d %s %s" % (a[1], coq_val(val_from_json(a[2])), coq_md(a[3]))
    if a[0] == "ack":
        return "AAck"
    if a[0] == "task":
        return "ATask %d" % a[1]
    if a[0] == "adv":
        return "AAdv %s" % z(a[1])
    raise KeyError(a[0])


def coq_obs(o):
    deliv = "[" + "; ".join("(%s, %s, %s)" % (z(t), coq_val(x), coq_md(m)) for (t, x, m) in o["deliv"]) + "]"
    return ("{| ao_now := %s; ao_deliv := %s; ao_done := %s; ao_counts := %s; ao_fired := %s |}"
            % (z(o["now"]), deliv, coq_natlist(o["done"]), "[" + "; ".join(z(c) for c in o["counts"]) + "]",
               coq_natlist(o["fired"])))


def coq_case(name, case, obs):
    k = case["node"]["k"]
    mod, model, init = MODELS[k]
    return ("Definition %s : acase %s := Build_acase %s %s %d\n  [%s]\n  [%s].\n"
            % (name, model, model, init(case["node"], case.get("sink") == "sync"), asyncfam.nrc_of(case),
               ";\n    ".join(coq_act(a) for a in case["actions"]), ";\n    ".join(coq_obs(o) for o in obs)))


def correspondence(tag, cases_obs, shard=150):
    """cases_obs: list of (case, obs), all of the same node kind per shard group. Returns (mismatch idx, errors)."""
    d = common.scratch(tag)
    bykind = {}
    for i, (c, o) in enumerate(cases_obs):
        bykind.setdefault(c["node"]["k"], []).append(i)
    files = []
    for k, idxs in bykind.items():
        mod, model, _ = MODELS[k]
        for s in range(0, len(idxs), shard):
            chunk = idxs[s:s + shard]
            p = os.path.join(d, "cases_%s_%d.v" % (k, s // shard))
            with open(p, "w") as f:
                f.write(HEADER % mod)
                names = []
                for i in chunk:
                    nm = "c%d" % i
                    f.write(coq_case(nm, cases_obs[i][0], cases_obs[i][1]))
                    names.append(nm)
                f.write("Eval vm_compute in (amismatches %s [%s]).\n" % (model, "; ".join(names)))
            files.append((p, chunk))
    res = common.run_case_files([p for p, _ in files])
    mism, errors = [], []
    for p, chunk in files:
        rc, out = res[p]
        lst = common.parse_natlist(out) if rc == 0 else None
        if lst is None:
            errors.append((p, out[-1500:]))
            continue
        mism.extend(chunk[j] for j in lst)
    return sorted(mism), errors


class AGen:
    def __init__(self, rng, max_actions=18, drain=True, mix=False, block=False, detach=False):
        self.r = rng
        self.detach = detach
        self.mix = mix
        self.block = block
        self.max_actions = max_actions
        self.drain = drain

    def spec(self, kind):
        r = self.r
        if kind == "buffer":
            return {"k": "buffer", "n": r.choice([1, 1, 2, 3])}
        if kind in ("delay", "rate_limit"):
            return {"k": kind, "interval": r.choice([1, 2, 3, 4, 4, 6])}
        if kind == "timed_window":
            return {"k": kind, "interval": r.choice([1, 2, 3, 4])}
        if kind == "timed_window_unique":
            return {"k": kind, "interval": r.choice([1, 2, 3, 4]), "key": r.choice([["KeyId"], ["KeyMod", 2], ["KeyMod", 3]]),
                    "keep": r.choice(["first", "last"])}
        if kind == "partition":
            # keyed partitions with a timeout could arm two timers for the same instant, whose firing order is an
            # artefact of the heap: keep key=None when a timeout is set
            to = r.choice([None, 2, 3, 4, 4])
            key = None if to is not None else r.choice([None, ["KeyMod", 2], ["KeyId"]])
            return {"k": kind, "n": r.choice([1, 2, 2, 3]), "timeout": to, "key": key}
        if kind == "latest":
            return {"k": kind}
        if kind in ("zip", "zip3"):
            return {"k": kind, "maxsize": r.choice([1, 1, 2, 3])}
        if kind == "map_async":
            return {"k": kind, "parallelism": r.choice([1, 1, 2, 3])}
        if kind in ("plain", "flatten", "zip_latest"):
            return {"k": kind}
        raise KeyError(kind)

    def value(self):
        if self.kind == "flatten":
            # the elements are LISTS of 1-3 fresh items (sometimes none)
            items = []
            for _ in range(self.r.choice([0, 1, 2, 2, 3, 3])):
                items.append(self.nextval)
                self.nextval += 1
            return val_to_json(items)
        if self.none_at is not None and self.nextval == self.none_at:
            return None
        return val_to_json(self.nextval)

    def case(self, kind):
        r = self.r
        self.kind = kind
        sp = self.spec(kind)
        if "interval" in sp and r.random() < 0.3:
            sp["ispec"] = r.choice(["str", "compound", "compound"])      # the same interval written as a duration string
        sink = r.choice(["ctl", "ctl", "coro", "tornado", "sync"])
        acts = []
        nrc = 0
        n = r.randint(1, self.max_actions)
        nsrc = 2 if kind in ("zip", "zip_latest") else (3 if kind == "zip3" else 1)
        # values: 1, 2, 3, ... or 0, 1, 2, ... (a falsy first element); for nodes whose value is never used as a number,
        # one of the elements may be None (a legal element like any other)
        self.nextval = r.choice([0, -1])
        self.none_at = None
        if kind in ("buffer", "delay", "rate_limit", "timed_window", "latest", "plain", "zip", "zip3") or (kind == "partition" and sp.get("key") is None):
            if r.random() < 0.3:
                self.none_at = r.choice([0, 1, 1, 2, 3, 4])
        pe = r.choice([0.3, 0.5, 0.7])
        # timing nodes: half of the cases let elements trickle in (a short advance after every emit), so that timers are
        # armed, re-armed and hit while partitions / windows are partly filled
        trickle = kind in ("partition", "timed_window", "timed_window_unique", "rate_limit", "delay") and r.random() < 0.5
        if trickle and kind == "partition" and sp.get("timeout") is not None:
            sp["n"] = r.choice([3, 4, 5])
        pmix = r.choice([0.0, 0.0, 0.15, 0.3]) if self.mix else 0.0
        for _ in range(n):
            u = r.random()
            if r.random() < pmix:
                # sub-actions that follow each other without the loop going quiescent in between
                subs = []
                for _j in range(r.choice([2, 2, 3])):
                    v = r.random()
                    if v < 0.5:
                        md = []
                        if r.random() < 0.5:
                            md.append([nrc, True])
                            nrc += 1
                        self.nextval += 1
                        subs.append(["emit", r.randrange(nsrc), self.value(), md])
                    elif kind == "map_async" and v < 0.8:
                        subs.append(["task", r.choice([0, 0, 1])])
                    elif v < 0.62 and self.block and kind in ("rate_limit", "delay", "buffer", "plain", "map_async"):
                        # the loop callback takes a while: timers that fall due meanwhile have not run when the next
                        # sub-action happens
                        subs.append(["block", r.choice([1, 2, 4, 6, 9])])
                    else:
                        subs.append(["ack"])
                acts.append(["mix", r.choice([-1, 0, 0, 1, 1, 2, 3]), subs])
                continue
            if u < pe:
                md = []
                if r.random() < 0.7:
                    for _ in range(r.choice([1, 1, 2])):
                        md.append([nrc, r.random() < 0.85])
                        nrc += 1
                self.nextval += 1
                acts.append(["emit", r.randrange(nsrc), self.value(), md])
                if trickle:
                    acts.append(["adv", r.choice([1, 1, 2, 3])])
            elif u < pe + (1 - pe) * 0.55:
                acts.append(["ack"])
            elif kind == "map_async" and r.random() < 0.6:
                acts.append(["task", r.choice([0, 0, 1, 2])])
            else:
                acts.append(["adv", r.choice([1, 1, 2, 3, 4, 4, 5, 8])])
        if pmix == 0.0 and r.random() < 0.1 and acts:
            # a long quiet period (seconds, not ticks) in the middle of the run: idle timers / watchdogs of a node fire
            acts.insert(r.randrange(len(acts) + 1), ["adv", r.choice([33, 40, 70])])
        if self.detach and kind in ("latest", "timed_window", "timed_window_unique", "buffer", "delay", "rate_limit", "partition") \
                and pmix == 0.0 and r.random() < (0.35 if kind == "latest" else 0.2):
            # the feed of the node is swapped while it works: detached, some time / consumer completions go by, attached again
            pos = r.randrange(len(acts) + 1)
            if kind == "latest" and r.random() < 0.7:
                # ... preferably while the consumer is busy with one element and a newer one is pending
                cands = [i + 1 for i in range(1, len(acts)) if acts[i][0] == "emit" and acts[i - 1][0] == "emit"]
                if cands:
                    pos = r.choice(cands)
                else:
                    extra = []
                    for _ in range(2):
                        self.nextval += 1
                        extra.append(["emit", 0, self.value(), []])
                    acts[pos:pos] = extra
                    pos += 2
            gap = [["detach"]]
            for _ in range(r.choice([1, 2, 3])):
                gap.append(r.choice([["adv", r.choice([1, 2, 4, 6, 9])], ["ack"], ["adv", r.choice([3, 5, 8])]]))
            gap.append(["attach"])
            acts[pos:pos] = gap
        if self.drain:
            k = sum(1 for a in acts if a[0] == "emit") + sum(len(a[2]) for a in acts if a[0] == "mix") + 3
            if kind == "flatten":
                k += max(0, self.nextval)
            for _ in range(k):
                acts.append(["ack"])
                if kind == "map_async":
                    acts.append(["task", 0])
                acts.append(["adv", 8])
            acts.append(["ack"])
        case = {"node": sp, "sink": sink, "actions": acts}
        if self.mix and pmix == 0.0 and kind not in ("zip", "zip3", "flatten", "zip_latest") and not any(a[0] == "detach" for a in acts) and r.random() < 0.3 and self.nextval >= 1:
            # the consumer reacts to some elements by emitting follow-ups into the source inside the hand-over
            react = {}
            nv = 500
            for key in r.sample(range(1, self.nextval + 1), min(self.nextval, r.choice([1, 1, 2]))):
                react[str(key)] = [nv + j for j in range(r.choice([1, 1, 2, 3]))]
                nv += 10
            case["react"] = react
            extra = sum(len(v) for v in react.values())
            for _ in range(extra + 1):
                acts.append(["ack"])
                if kind == "map_async":
                    acts.append(["task", 0])
                acts.append(["adv", 8])
            acts.append(["ack"])
        return case


if __name__ == "__main__":
    kind = sys.argv[1]
    n = int(sys.argv[2]) if len(sys.argv) > 2 else 100
    seed = int(sys.argv[3]) if len(sys.argv) > 3 else 0
    g = AGen(random.Random(seed))
    co = []
    for i in range(n):
        c = g.case(kind)
        co.append((c, asyncfam.run_case(c)))
    mism, errors = correspondence("async_dbg", co)
    print("mismatches", mism[:20], len(mism), "errors", len(errors))
    for p, o in errors[:1]:
        print(p, o)
    if mism:
        c, o = co[mism[0]]
        print(json.dumps(c))
        for a, ob in zip([None] + c["actions"], o):
            print("  ", a, "->", {k: v for k, v in ob.items() if k in ("now", "deliv", "done", "counts", "fired")})
