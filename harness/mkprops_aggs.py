"""Write the restatements of the aggregation bridges (Base/BridgeAggs.v, BridgeAggsVec.v, BridgeAggsWindow.v) into
Props/C06.v, C07.v, C12.v.  The block sits between two marker comments at the END of each file (no other generator writes
into these three files) and is replaced on every run of this script; the result is committed.  Statements are written out
by hand here (not obtained with `Check`), so that a change of a bridge statement is visible in review.

  C06  every translated function, scalar and vector path, `accumulator`, `diff_expanding`   (model DF/Agg.v)
  C07  on_new / on_old / initial / result functions of the window model, `diff_expanding`     (model DF/Window.v)
  C12  what a resumed pipeline is started from: the state component returned by on_new (both paths), `initial`,
       `accumulator`                                                                          (model DF/Agg.v)
Usage: mkprops_aggs.py [C06 C07 C12]"""
import os
import sys

COQ = os.path.join(os.path.dirname(os.path.dirname(os.path.abspath(__file__))), "coq")
BEGIN = "(* ---- aggregation bridges (harness/mkprops_aggs.py): begin ---- *)"
END = "(* ---- aggregation bridges (harness/mkprops_aggs.py): end ---- *)"

INTRO = {
    "agg": """(* The aggregation classes are the ones regenerated from the source under test on this run: Gen/KA_<class>.v is written by
   harness/gen_aggs.py from the python AST of streamz/dataframe/aggregations.py (symbolic execution over an abstract pandas
   interface, Base/AggPrims.v; the mapping of the pandas primitives is printed into every generated file).
   Base/BridgeAggs.v (streaming Series: statistics are numbers) and Base/BridgeAggsVec.v (streaming DataFrame: one
   statistic per column) prove that, with the interface instantiated by DF/Frames.v, they are the fields of the
   aggregation records of DF/Agg.v, repaired variant.  f2o: a float result as option Qc (NaN and the infinities are None);
   var_py: the model's extra state component "still the python ints of `initial`". *)
From SZ Require Import Base.AggPrims Base.BridgeAggs Base.BridgeAggsVec.
From SZ Require Gen.KA_Sum Gen.KA_Count Gen.KA_Size Gen.KA_Mean Gen.KA_Var Gen.KA_Accumulator.""",
    "window": """(* The aggregation classes are the ones regenerated from the source under test on this run: Gen/KA_<class>.v is written by
   harness/gen_aggs.py from the python AST of streamz/dataframe/aggregations.py (symbolic execution over an abstract pandas
   interface, Base/AggPrims.v; the mapping of the pandas primitives is printed into every generated file).
   Base/BridgeAggsWindow.v proves that, with the interface instantiated by the frames of DF/Window.v, the state component
   they return is the model's on_new / on_old and the value they return is `fin` of that state (repaired scalar variant:
   mean_agg true true, var_agg true true ddof); f2onum: a float result as the model's onum, infinities kept apart. *)
From SZ Require Import Base.AggPrims Base.BridgeAggsWindow Base.BridgeAggsIloc.
From SZ Require Gen.KA_Sum Gen.KA_Count Gen.KA_Size Gen.KA_Mean Gen.KA_Var Gen.KA_Accumulator Gen.KA_DiffIloc.""",
}

G = "Gen.KA_%s.gen_%s"

# ---- DF/Agg.v, scalar path: (suffix, statement, lemma, tags)
AGG = []
for cls, model in (("Sum", "sum_s c"), ("Count", "count_s c"), ("Size", "size_s c")):
    lo = cls.lower()
    AGG += [
        ("%s_on_new" % lo, "forall c acc new, Some (%s (frames_ops c) acc new) = Agg.on_new (%s) acc new" % (G % (cls, lo + "_on_new"), model),
         "bridge_%s_on_new" % lo, "new"),
        ("%s_on_old" % lo, "forall c acc old, Some (%s (frames_ops c) acc old) = Agg.on_old (%s) acc old" % (G % (cls, lo + "_on_old"), model),
         "bridge_%s_on_old" % lo, "old"),
        ("%s_initial" % lo, "forall c new, %s (frames_ops c) new = Agg.initial (%s) new" % (G % (cls, lo + "_initial"), model),
         "bridge_%s_initial" % lo, "init"),
    ]
AGG += [
    ("divide", "forall c totals counts, f2o (Gen.KA_Mean.gen_divide (frames_ops c) totals counts) = qdivz totals counts", "bridge_divide", "res"),
    ("mean_on_new", "forall c acc new, Some (res_o (Gen.KA_Mean.gen_mean_on_new (frames_ops c) acc new)) = Agg.on_new (mean_s c repaired) acc new",
     "bridge_mean_on_new", "new"),
    ("mean_on_old", "forall c acc old, Some (res_o (Gen.KA_Mean.gen_mean_on_old (frames_ops c) acc old)) = Agg.on_old (mean_s c repaired) acc old",
     "bridge_mean_on_old", "old"),
    ("mean_initial", "forall c new, Gen.KA_Mean.gen_mean_initial (frames_ops c) new = Agg.initial (mean_s c repaired) new", "bridge_mean_initial", "init"),
    ("var_compute_result", "forall c ddof x x2 n, f2o (Gen.KA_Var.gen_var_compute_result (frames_ops c) ddof x x2 n) = compute_result ddof x x2 n",
     "bridge_var_compute_result", "res"),
    ("var_on_new", "forall c ddof x x2 n py new,\n  Some (let p := Gen.KA_Var.gen_var_on_new (frames_ops c) ddof (x, x2, n) new in ((fst p, var_py py new), f2o (snd p)))\n"
                   "  = Agg.on_new (var_s c repaired ddof) (x, x2, n, py) new", "bridge_var_on_new", "new"),
    ("var_on_old", "forall c ddof x x2 n py old,\n  Some (let p := Gen.KA_Var.gen_var_on_old (frames_ops c) ddof (x, x2, n) old in ((fst p, var_py py old), f2o (snd p)))\n"
                   "  = Agg.on_old (var_s c repaired ddof) (x, x2, n, py) old", "bridge_var_on_old", "old"),
    ("var_initial", "forall c ddof new, (Gen.KA_Var.gen_var_initial (frames_ops c) new, true) = Agg.initial (var_s c repaired ddof) new",
     "bridge_var_initial", "init"),
    ("accumulator", "forall (S R : Type) (agg : aggregation S R) (f : S -> frame -> S * R),\n  (forall s b, Agg.on_new agg s b = Some (f s b)) ->\n"
                    "  forall acc new, Some (Gen.KA_Accumulator.gen_accumulator (Agg.initial agg) f acc new) = accumulator agg acc new",
     "(@bridge_accumulator)", "acc"),
    ("diff_expanding", "forall c dfs new, Gen.KA_Accumulator.gen_diff_expanding (frames_ops c) dfs new = (if nonempty new then dfs ++ [new] else dfs, [])",
     "bridge_diff_expanding", "exp"),
]
# ---- DF/Agg.v, vector path
for cls, model in (("Sum", "sum_v cs"), ("Count", "count_v cs"), ("Size", "size_v cs")):
    lo = cls.lower()
    AGG += [
        ("%s_on_new_v" % lo, "forall cs acc new, Some (%s (frames_vops cs) acc new) = Agg.on_new (%s) acc new" % (G % (cls, lo + "_on_new_v"), model),
         "bridge_%s_on_new_v" % lo, "new"),
        ("%s_on_old_v" % lo, "forall cs acc old, Some (%s (frames_vops cs) acc old) = Agg.on_old (%s) acc old" % (G % (cls, lo + "_on_old_v"), model),
         "bridge_%s_on_old_v" % lo, "old"),
        ("%s_initial_v" % lo, "forall cs new, %s (frames_vops cs) new = Agg.initial (%s) new" % (G % (cls, lo + "_initial_v"), model),
         "bridge_%s_initial_v" % lo, "init"),
    ]
AGG += [
    ("divide_v", "forall cs totals counts, map f2o (Gen.KA_Mean.gen_divide_v (frames_vops cs) totals counts) = zipw qdivz totals counts",
     "bridge_divide_v", "res"),
    ("mean_on_new_v", "forall cs acc new, Some (res_vo (Gen.KA_Mean.gen_mean_on_new_v (frames_vops cs) acc new)) = Agg.on_new (mean_v cs) acc new",
     "bridge_mean_on_new_v", "new"),
    ("mean_on_old_v", "forall cs acc old, Some (res_vo (Gen.KA_Mean.gen_mean_on_old_v (frames_vops cs) acc old)) = Agg.on_old (mean_v cs) acc old",
     "bridge_mean_on_old_v", "old"),
    ("mean_initial_v", "forall cs new, Gen.KA_Mean.gen_mean_initial_v (frames_vops cs) new = Agg.initial (mean_v cs) new", "bridge_mean_initial_v", "init"),
    ("var_compute_result_v", "forall cs ddof x x2 n, map f2o (Gen.KA_Var.gen_var_compute_result_v (frames_vops cs) ddof x x2 n) = zipw3 (compute_result ddof) x x2 n",
     "bridge_var_compute_result_v", "res"),
    ("var_on_new_v", "forall cs ddof acc new, Some (res_vo (Gen.KA_Var.gen_var_on_new_v (frames_vops cs) ddof acc new)) = Agg.on_new (var_v cs ddof) acc new",
     "bridge_var_on_new_v", "new"),
    ("var_on_old_v", "forall cs ddof acc old, Some (res_vo (Gen.KA_Var.gen_var_on_old_v (frames_vops cs) ddof acc old)) = Agg.on_old (var_v cs ddof) acc old",
     "bridge_var_on_old_v", "old"),
    ("var_initial_v", "forall cs ddof new, Gen.KA_Var.gen_var_initial_v (frames_vops cs) new = Agg.initial (var_v cs ddof) new", "bridge_var_initial_v", "init"),
]

# ---- DF/Window.v
WIN = []
for cls, model, conv in (("Sum", "sum_agg", "ONum (%s)"), ("Count", "count_agg", "ONum (z2qc (%s))"), ("Size", "size_agg", "ONum (z2qc (%s))"),
                         ("Mean", "(mean_agg true true)", "f2onum (%s)"), ("Var", "(var_agg true true ddof)", "f2onum (%s)")):
    lo = cls.lower()
    dd = "ddof " if cls == "Var" else ""
    for which, arg in (("on_new", "new"), ("on_old", "old")):
        g = "%s window_ops %sacc %s" % (G % (cls, "%s_%s" % (lo, which)), dd, arg)
        WIN.append(("%s_%s" % (lo, which),
                    "forall %sacc %s,\n  fst (%s) = Window.%s %s acc %s /\\\n  %s = fin %s (Window.%s %s acc %s)"
                    % (dd, arg, g, which, model, arg, conv % ("snd (%s)" % g), model, which, model, arg),
                    "bridge_w_%s_%s" % (lo, which), "new" if which == "on_new" else "old"))
    WIN.append(("%s_initial" % lo, "forall %snew, %s window_ops new = init %s" % (dd, G % (cls, lo + "_initial"), model),
                "bridge_w_%s_initial" % lo, "init"))
WIN += [
    ("divide", "forall totals counts, f2onum (Gen.KA_Mean.gen_divide window_ops totals counts) = mean_fin (totals, counts)", "bridge_w_divide", "res"),
    ("var_compute_result", "forall ddof x x2 n, f2onum (Gen.KA_Var.gen_var_compute_result window_ops ddof x x2 n) = var_fin ddof (x, x2, n)",
     "bridge_w_var_compute_result", "res"),
    ("var_total", "forall ddof, raises_on_pyint (var_agg true true ddof) = false", "bridge_w_var_total", "res"),
    ("diff_expanding", "forall dfs new, Some (Gen.KA_Accumulator.gen_diff_expanding window_ops dfs new) = diff WE dfs new", "bridge_w_diff_expanding", "exp"),
    # window(n=N): the `while` loop as recursion on fuel; never IndexError, never out of fuel, and the model's diff_iloc
    ("diff_iloc", "forall N dfs new, Gen.KA_DiffIloc.gen_diff_iloc window_ops dfs new (Z.of_nat N) = Some (diff_iloc N dfs new)", "bridge_w_diff_iloc", "exp"),
]

WHICH = {
    "C06": ("agg", AGG, None),
    "C07": ("window", WIN, None),
    "C12": ("agg", AGG, ("new", "init", "acc")),
}


def group_of(suffix):
    if suffix == "accumulator":
        return "accumulator"
    if suffix.startswith("diff_"):
        return "diff"
    if suffix.startswith("divide"):
        return "Mean"
    return suffix.split("_")[0].capitalize()


def block(pid):
    """one theorem per class (a conjunction of the bridge statements of its functions): `Print Assumptions` walks the whole
    dependency closure each time, so forty separate theorems would cost the check an extra ten seconds"""
    intro, table, tags = WHICH[pid]
    out = [BEGIN, INTRO[intro]]
    groups = {}
    for suffix, st, lem, tag in table:
        if tags is not None and tag not in tags:
            continue
        groups.setdefault(group_of(suffix), []).append((suffix, st, lem))
    for g, items in groups.items():
        tn = "%s_bridge_%s" % (pid, g)
        sts = ["  (* %s *)\n  (%s)" % (suffix, st.replace("\n", "\n ")) for suffix, st, lem in items]
        proof = items[-1][2]
        for suffix, st, lem in reversed(items[:-1]):
            proof = "(conj %s %s)" % (lem, proof)
        out.append("Theorem %s :\n%s.\nProof. exact %s. Qed.\nPrint Assumptions %s." % (tn, " /\\\n".join(sts), proof, tn))
    out.append(END)
    return "\n".join(out) + "\n"


def main(which):
    for pid in WHICH:
        if which and pid not in which:
            continue
        fn = os.path.join(COQ, "theories", "Props", "%s.v" % pid)
        txt = open(fn).read()
        if BEGIN in txt:
            txt = txt[:txt.index(BEGIN)] + txt[txt.index(END) + len(END):].lstrip("\n")
        txt = txt.rstrip("\n") + "\n\n" + block(pid)
        open(fn, "w").write(txt)


if __name__ == "__main__":
    main(sys.argv[1:])
