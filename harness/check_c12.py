"""C12: aggregation state can be checkpointed and resumed without changing results.

proof cone (Props/C12.v: generic resume theorem + instances for the modelled operators), every cut of every batch
sequence driven through the REAL public API (with_state=True / start=), exact comparison of the resumed suffix,
and for the modelled operators the Coq correspondence of the resumed run against the model."""
import json
import multiprocessing as mp
import os
import random
import sys
import time

sys.path.insert(0, os.path.dirname(os.path.abspath(__file__)))
import common
import df_common as dfc
import c06_impl as ci
import c06_coq
import c12_impl as c12

MEAN_FAM = ("s.mean", "es.mean")
VAR_FAM = ("es.var1",)
KEYED = [p for p in c12.PIPE_IDS if c12.PIPES[p]["group"] in ("groupby", "windowed-groupby", "window-n", "window-time")]
TIME_ROLL = [p for p in c12.PIPE_IDS if p.startswith("roll2s")]


def mk(pipe, rows, sizes, ex=None):
    if ex is None:
        # a time-based rolling window cannot be rebuilt from a checkpoint when the `example` row is older than
        # the checkpointed rows (known finding below); use the empty example streamz' own tests use
        ex = "empty" if pipe in TIME_ROLL else "row"
    return {"pipe": pipe, "rows": rows, "sizes": sizes, "ex": ex}


def random_case(rng, pipes=None):
    n = rng.randint(1, 12)
    nanp = rng.choice([0.0, 0.2, 0.5])
    rows = []
    for _ in range(n):
        x = None if rng.random() < nanp else rng.randint(0, 6)
        y = None if rng.random() < nanp else rng.randint(-3, 3)
        k = None if rng.random() < 0.15 else rng.choice([1, 1, 2, 3, 5])
        rows.append([x, y, k])
    sizes, left = [], n
    while left > 0:
        if rng.random() < 0.25:
            sizes.append(0)
            continue
        s = rng.randint(1, min(left, 4))
        sizes.append(s)
        left -= s
    if rng.random() < 0.3:
        sizes.append(0)
    return mk(rng.choice(pipes or c12.PIPE_IDS), rows, sizes)


def cancellation_case(rng, pipes=None):
    """float data whose running sums lose low-order bits (a huge value enters and later leaves again, small ones arrive
    in between): a resumed run must still reproduce the uninterrupted one bit for bit.  Oracle only (the Coq model is
    over exact rationals)."""
    big = rng.choice([1e16, 1e15, 3e16])
    vals = [big] + [rng.choice([1.0, 1.0, 0.5, 0.25, 3.0]) for _ in range(rng.randint(1, 4))] + [-big] + \
           [rng.choice([0.5, 0.25, 1.0]) for _ in range(rng.randint(1, 3))]
    rows = [[v, rng.choice([1.0, 2.0, -1.0]), rng.choice([1, 1, 2])] for v in vals]
    sizes = [1] * len(rows) if rng.random() < 0.6 else [rng.choice([1, 2]) for _ in rows]
    tot, out_sizes = 0, []
    for s_ in sizes:
        if tot >= len(rows):
            break
        s_ = min(s_, len(rows) - tot)
        out_sizes.append(s_)
        tot += s_
    c = mk(rng.choice(pipes or c12.PIPE_IDS), rows, out_sizes)
    c["nocoq"] = True
    return c


TIME_WIN = [p for p in c12.PIPE_IDS if c12.PIPES[p]["group"] == "window-time" or p.startswith("wgt")]


def late_case(rng):
    """time windows fed with LATE batches (rows older than rows that arrived before them, some still inside the window,
    some already outside).  Oracle only: resumed run == uninterrupted run at every cut."""
    nb = rng.randint(3, 6)
    sizes = [rng.choice([1, 1, 2, 3]) for _ in range(nb)]
    rows = [[rng.randint(0, 6), rng.randint(-3, 3), rng.choice([1, 1, 2, 3])] for _ in range(sum(sizes))]
    boff = [0] * nb
    for b in range(1, nb):
        if rng.random() < 0.45:
            boff[b] = -rng.choice([1, 2, 3, 4, 6])
        elif rng.random() < 0.3:
            boff[b] = rng.choice([1, 2, 5])
    pos = 0
    for b in range(nb):         # no negative stamps
        boff[b] = max(boff[b], -pos)
        pos += sizes[b]
    c = mk(rng.choice(TIME_WIN), rows, sizes)
    c["boff"] = boff
    c["nocoq"] = True
    return c


def gen_cases(tier, rng):
    T = ci.TABLES
    thorough = tier == "thorough"
    cases = []
    for sizes in dfc.all_splits(len(T["nan-first"])):
        for p in c12.PIPE_IDS:
            cases.append(mk(p, T["nan-first"], sizes))
    for i, sizes in enumerate(dfc.all_splits(len(T["vanish"]))):
        if thorough or i % 3 == 0:
            for p in (c12.PIPE_IDS if thorough else KEYED):
                cases.append(mk(p, T["vanish"], sizes))
    for sizes in dfc.all_splits(len(T["x-all-nan"])):
        for p in c12.PIPE_IDS:
            cases.append(mk(p, T["x-all-nan"], sizes))
    # the non-empty example with time-based rolling (keeps the known finding visible)
    for p in TIME_ROLL:
        cases.append(mk(p, T["dense"], [3, 2], ex="row"))
    for _ in range(300 if not thorough else 5000):
        cases.append(random_case(rng))
    for _ in range(150 if not thorough else 2000):
        cases.append(cancellation_case(rng))
    if TIME_WIN:
        for _ in range(200 if not thorough else 3000):
            cases.append(late_case(rng))
    return cases


def shrink(case, sig):
    def fails(c):
        r = c12.check_light(c)
        return any(s == sig for s, _, _ in r["findings"])

    cur = json.loads(json.dumps(case))
    changed = True
    while changed:
        changed = False
        pos = 0
        for bi, s in enumerate(list(cur["sizes"])):
            for j in range(s):
                c2 = json.loads(json.dumps(cur))
                del c2["rows"][pos + j]
                c2["sizes"][bi] -= 1
                if fails(c2):
                    cur, changed = c2, True
                    break
            if changed:
                break
            pos += s
        if changed:
            continue
        for bi in range(len(cur["sizes"]) - 1):
            c2 = json.loads(json.dumps(cur))
            c2["sizes"][bi:bi + 2] = [c2["sizes"][bi] + c2["sizes"][bi + 1]]
            if fails(c2):
                cur, changed = c2, True
                break
    return cur


def run(prop, tier, seed, replay=None):
    out = common.Outcome(prop, tier, seed)
    proof = common.props_check(prop)
    common.coq_make(["theories/DF/AggCase.vo"])
    rng = random.Random(seed * 1000003 + 12)
    cases = [json.load(open(replay))["replay"]["case"]] if replay else gen_cases(tier, rng)
    known = common.known_signatures(prop)

    t0 = time.time()
    with mp.Pool(common.NCPU) as pool:
        res = pool.map(c12.check_light, cases, chunksize=20)
    t_impl = time.time() - t0

    by_sig = {}
    for i, (c, r) in enumerate(zip(cases, res)):
        if r["crash"]:
            out.violation("C12/harness-crash", "driver crashed: %s" % r["crash"], {"case": c}, no_input=True)
            continue
        for sig, msg, k in r["findings"]:
            by_sig.setdefault(sig, []).append((i, msg, k))
    nshrunk = 0
    for sig, lst in sorted(by_sig.items()):
        if sig in known:
            out.known_finding(sig, "%s (%d cases this run; e.g. %s)" % (known[sig]["what"], len(lst), lst[0][1][:200]))
            continue
        idx, msg, k = min(lst, key=lambda t: len(json.dumps(cases[t[0]])))
        small = shrink(cases[idx], sig) if nshrunk < 4 else cases[idx]
        nshrunk += 1
        out.violation(sig, msg + " [%d cases]" % len(lst), {"case": small, "cut": k, "original_case": cases[idx]})

    # ---- Coq correspondence for the modelled operators: resumed run vs the model
    items = []
    for c, r in zip(cases, res):
        if r.get("coq") is None or c.get("nocoq"):
            continue
        c06case = {"agg": c12.PIPES[c["pipe"]]["c06"], "rows": c["rows"], "sizes": c["sizes"], "filt": None}
        for k, resumed in sorted(r["coq"]["resumed"].items()):
            items.append((c06case, r["coq"]["full"], int(k), resumed, c["pipe"]))
    t0 = time.time()
    m_af, m_rep, unenc, errors = c06_coq.resume_correspondence(prop, [it[:4] for it in items])
    t_coq = time.time() - t0
    for p, o_ in errors:
        out.violation("C12/correspondence-error", "coqc failed on generated cases: %s" % o_[-400:], {"file": p}, no_input=True)
    fam = lambda i: items[i][4]
    s_af, s_rep = set(m_af), set(m_rep)
    broken = set(unenc)
    variant = {}
    for name, members in (("mean", MEAN_FAM), ("var", VAR_FAM)):
        a = {i for i in s_af if fam(i) in members}
        r = {i for i in s_rep if fam(i) in members}
        if not r:
            variant[name] = "repaired" if a else "indistinguishable"
        elif not a:
            variant[name] = "as_found"
        else:
            variant[name] = "neither"
            broken |= (a & r) or a
    broken |= {i for i in (s_af | s_rep) if fam(i) not in MEAN_FAM + VAR_FAM}
    if broken and not out.violations:
        pipes = sorted({fam(i) for i in broken})
        extra = [random_case(rng, pipes) for _ in range(400)]
        with mp.Pool(common.NCPU) as pool:
            res2 = pool.map(c12.check_light, extra, chunksize=20)
        found = False
        for c, r in zip(extra, res2):
            for sig, msg, k in r["findings"]:
                if sig not in known:
                    out.violation(sig, msg, {"case": shrink(c, sig), "cut": k, "found_by": "widened search after model mismatch"})
                    found = True
                    break
            if found:
                break
        if not found:
            i0 = sorted(broken)[0]
            out.violation("C12/correspondence/model-differs",
                          "Coq model (neither variant) and implementation disagree on %d of %d resumed runs (first: %s cut %d); cut test silent after widened search"
                          % (len(broken), len(items), json.dumps(items[i0][0]), items[i0][2]),
                          {"case": {"pipe": items[i0][4], "rows": items[i0][0]["rows"], "sizes": items[i0][0]["sizes"]},
                           "cut": items[i0][2], "correspondence": "DF.AggCase.ragrees", "mismatching": sorted(broken)[:20]},
                          no_input=True)
    if not proof["ok"]:
        out.violation("C12/proof/%s" % proof["failing"], "proof obligation no longer checks: %s" % proof["failing"],
                      {"theorem_or_file": proof["failing"], "log": proof["log"][-3000:]}, no_input=True)

    hist, cuts_by_group = {}, {}
    nontriv = set()
    for c, r in zip(cases, res):
        g = c12.PIPES[c["pipe"]]["group"]
        hist[g] = hist.get(g, 0) + 1
        cuts_by_group[g] = cuts_by_group.get(g, 0) + r["cuts"]
        if r["cuts"] >= 1 and sum(1 for s in c["sizes"] if s > 0) >= 2:
            nontriv.add(json.dumps(c, sort_keys=True))
    nbad = len(s_af | s_rep | set(unenc))
    cov = {
        "evaluations": len(cases),
        "cut_points_resumed": sum(r["cuts"] for r in res),
        "distinct_nontrivial": len(nontriv),
        "rule": "case = (pipeline id, table of [x,y,k] rows with NaNs on a one-row-per-second DatetimeIndex, split into consecutive batches incl. empty ones); for EVERY cut 1 <= k < #batches where a state was exposed, a fresh pipeline is built with start=<deep copy of that state> and its (state, result) pairs for the remaining batches are compared exactly with the uninterrupted run; quick: all compositions (+ inserted empty batches) of the 5-row NaN table and of the 3-row all-NaN table for all %d pipelines, every 3rd composition of the 6-row vanishing-key table for keyed/windowed pipelines, seeded random tables; non-trivial = at least one cut resumed and at least two non-empty batches; distinct by JSON" % len(c12.PIPE_IDS),
        "exhaustive": False,
        "state_exposure": {p: c12.PIPES[p]["expose"] for p in c12.PIPE_IDS},
        "pipelines_with_coq_model": sorted(p for p in c12.PIPE_IDS if c12.PIPES[p]["c06"]),
        "pipelines_implementation_level_only": sorted(p for p in c12.PIPE_IDS if not c12.PIPES[p]["c06"]),
        "traces_validated_against_impl": len(items) - len(broken) if not errors else 0,
        "resumed_runs_compared_in_coq": len(items),
        "disagreements_checked": nbad,
        "model_variant_matched": variant,
        "oracle_signatures": {s: len(l) for s, l in by_sig.items()},
        "pipeline_group_histogram": hist,
        "cuts_by_group": cuts_by_group,
        "samples": [cases[0], cases[len(cases) // 2], cases[-1]],
        "impl_seconds": round(t_impl, 2), "coq_seconds": round(t_coq, 2),
    }
    return out.finish(proof, cov)


if __name__ == "__main__":
    import argparse
    ap = argparse.ArgumentParser()
    ap.add_argument("--tier", default=common.tier_from_env())
    ap.add_argument("--replay")
    a = ap.parse_args()
    sys.exit(run("C12", a.tier, common.seed_from_env(), a.replay))
