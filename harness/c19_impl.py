"""C19 driver: run one construction session on the REAL streamz and observe loop / mode of every node.

A case is {"steps": [{"kind": K, "ups": [indices of earlier successfully-created nodes], "asynchronous": None|True|False,
"loop": None|"L1"|"L2"|"CUR"}, ...]}.  Steps whose constructor raises create no node; later steps index the
list of nodes that exist.  `run_case` must be called from inside a running asyncio loop so that
IOLoop.current() is well defined (the caller's loop)."""
import atexit
import os
import queue
import shutil
import tempfile
import threading

from tornado.ioloop import IOLoop

import streamz
import streamz.sources
import streamz.core as core
from streamz import Stream, Source

# kind -> (arity, ensure_io_loop, accepts asynchronous=/loop= keywords)
ROOT_PLAIN = ["Stream"]
SOURCES = ["Source", "from_periodic", "from_iterable", "from_textfile", "filenames", "from_q",
           "from_tcp", "from_http_server", "from_process"]
UNARY_PLAIN_NOKW = ["map"]
UNARY_PLAIN = ["flatten", "pluck", "unique", "sliding_window", "collect"]
UNARY_ENSURE = ["buffer", "partition", "timed_window", "timed_window_unique", "delay", "rate_limit", "latest"]
UNARY_ENSURE_NOKW = ["map_async"]
JOINS = ["zip", "union", "combine_latest", "zip_latest"]

KINDS = {}
for k in ROOT_PLAIN:
    KINDS[k] = dict(arity=0, ensure=False, kw=True)
for k in SOURCES:
    KINDS[k] = dict(arity=0, ensure=True, kw=True)
for k in UNARY_PLAIN_NOKW:
    KINDS[k] = dict(arity=1, ensure=False, kw=False)
for k in UNARY_PLAIN:
    KINDS[k] = dict(arity=1, ensure=False, kw=True)
for k in UNARY_ENSURE:
    KINDS[k] = dict(arity=1, ensure=True, kw=True)
for k in UNARY_ENSURE_NOKW:
    KINDS[k] = dict(arity=1, ensure=True, kw=False)
for k in JOINS:
    KINDS[k] = dict(arity=2, ensure=False, kw=True)

_TMP = None
BIG = 3600.0    # intervals: the cb coroutines that some nodes start must sleep, not spin


def _tmp():
    global _TMP
    if _TMP is None:
        _TMP = tempfile.mkdtemp(prefix="c19_")
        atexit.register(shutil.rmtree, _TMP, True)
        with open(os.path.join(_TMP, "f.txt"), "w") as f:
            f.write("a\nb\n")
    return _TMP


def _ident(x):
    return x


async def _aident(x):
    return x


def make_node(kind, ups, kw):
    """Call the public constructor exactly as a user would."""
    if kind == "Stream":
        return Stream(**kw)
    if kind == "Source":
        return Source(**kw)
    if kind == "from_periodic":
        return Stream.from_periodic(lambda: 1, BIG, **kw)
    if kind == "from_iterable":
        return Stream.from_iterable([1, 2, 3], **kw)
    if kind == "from_textfile":
        return Stream.from_textfile(os.path.join(_tmp(), "f.txt"), **kw)
    if kind == "filenames":
        return Stream.filenames(_tmp(), **kw)
    if kind == "from_q":
        return streamz.sources.from_q(queue.Queue(), **kw)
    if kind == "from_tcp":
        return Stream.from_tcp(0, **kw)
    if kind == "from_http_server":
        return Stream.from_http_server(0, **kw)
    if kind == "from_process":
        return Stream.from_process(["true"], **kw)
    u = ups[0]
    if kind == "map":
        assert not kw
        return u.map(_ident)
    if kind == "map_async":
        assert not kw
        return u.map_async(_aident)
    if kind not in ("map", "map_async"):
        # call through the class: an instance attribute may shadow the method (from_textfile.buffer is a str)
        return _via_class(kind, ups, kw)
    if kind == "flatten":
        return u.flatten(**kw)
    if kind == "pluck":
        return u.pluck(0, **kw)
    if kind == "unique":
        return u.unique(**kw)
    if kind == "sliding_window":
        return u.sliding_window(2, **kw)
    if kind == "collect":
        return u.collect(**kw)
    if kind == "buffer":
        return u.buffer(2, **kw)
    if kind == "partition":
        return u.partition(2, **kw)
    if kind == "timed_window":
        return u.timed_window(BIG, **kw)
    if kind == "timed_window_unique":
        return u.timed_window_unique(BIG, key=_ident, **kw)
    if kind == "delay":
        return u.delay(BIG, **kw)
    if kind == "rate_limit":
        return u.rate_limit(BIG, **kw)
    if kind == "latest":
        return u.latest(**kw)
    if kind == "zip":
        return u.zip(*ups[1:], **kw)
    if kind == "union":
        return u.union(*ups[1:], **kw)
    if kind == "combine_latest":
        return u.combine_latest(*ups[1:], **kw)
    if kind == "zip_latest":
        return u.zip_latest(*ups[1:], **kw)
    raise KeyError(kind)


def _via_class(kind, ups, kw):
    u = ups[0]
    args = {"flatten": (), "pluck": (0,), "unique": (), "sliding_window": (2,), "collect": (), "buffer": (2,),
            "partition": (2,), "timed_window": (BIG,), "delay": (BIG,), "rate_limit": (BIG,), "latest": ()}
    if kind == "timed_window_unique":
        return Stream.timed_window_unique(u, BIG, key=_ident, **kw)
    if kind in args:
        return getattr(Stream, kind)(u, *args[kind], **kw)
    return getattr(Stream, kind)(u, *ups[1:], **kw)


def loop_code(loop, cur, user):
    if loop is None:
        return None
    if loop is cur:
        return "CUR"
    for name, l in user.items():
        if loop is l:
            return name
    if core._io_loops and loop is core._io_loops[-1]:   # observation only
        return "BG"
    return "X"


def bg_thread_count():
    return len([t for t in threading.enumerate() if t is not threading.main_thread()])


def run_case(case):
    """-> (steps actually run, list of per-step observations
    {"raised": bool, "exc": str|None, "snap": [[loop_code, asynchronous], ...], "thread_started": bool}).
    The session is cut at the first request that refers to a node which does not exist (because an earlier
    constructor raised)."""
    cur = IOLoop.current()
    user = {}
    nodes = []
    obs = []
    ran = []
    saved_client = core._dask_default_client
    if case.get("client"):
        # a blocking dask Client is the process-wide default client: it owns a loop in a background thread
        # (get_io_loop answers that loop for nodes that are not declared asynchronous)
        user["DC"] = IOLoop(make_current=False)

        class _FakeClient:
            loop = user["DC"]
        core._dask_default_client = lambda: _FakeClient
    else:
        def _no_client():
            raise ValueError("no dask client")
        core._dask_default_client = _no_client
    try:
        for st in case["steps"]:
            if any(i >= len(nodes) for i in st.get("ups", [])):
                break
            ran.append(st)
            kw = {}
            if st.get("asynchronous") is not None:
                kw["asynchronous"] = st["asynchronous"]
            lp = st.get("loop")
            if lp == "CUR":
                kw["loop"] = cur
            elif lp is not None:
                if lp not in user:
                    user[lp] = IOLoop(make_current=False)
                kw["loop"] = user[lp]
            ups = [nodes[i] for i in st.get("ups", [])]
            nthreads = bg_thread_count()
            raised, exc = False, None
            try:
                n = make_node(st["kind"], ups, kw)
                nodes.append(n)
            except ValueError as e:
                raised, exc = True, "ValueError: %s" % e
            except Exception as e:   # any other exception is a different outcome
                raised, exc = True, "%s: %s" % (type(e).__name__, e)
            started = bg_thread_count() > nthreads
            snap = [[loop_code(n.loop, cur, user), n.asynchronous] for n in nodes]
            obs.append({"raised": raised, "exc": exc, "snap": snap, "thread_started": started})
    finally:
        core._dask_default_client = saved_client
        for n in nodes:
            f = getattr(n, "file", None)
            if f is not None and hasattr(f, "close"):
                try:
                    f.close()
                except Exception:
                    pass
        for l in user.values():
            try:
                l.close(all_fds=False)
            except Exception:
                pass
    return ran, obs


def request_of(step):
    """the model-level request of a step"""
    k = KINDS[step["kind"]]
    return {"ups": list(step.get("ups", [])), "asynchronous": step.get("asynchronous"), "loop": step.get("loop"),
            "ensure": k["ensure"]}
