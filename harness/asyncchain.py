"""Random chains of synchronous and asynchronous nodes driven on the stepped virtual loop (oracle only):
pipeline-level statements of C02 (same sequence as the synchronous semantics), C03 (no emit stays pending),
C04 / C05 (callbacks not early, counters balanced) for 1-1 chains."""
import asyncio
import json
import logging

import vloop
from vloop import TICKS_PER_S

logging.disable(logging.CRITICAL)

WAITING = ("buffer", "delay", "rate_limit", "map_async", "timed_window", "partition")
ONE_TO_ONE = ("inc", "double", "acc", "buffer", "delay", "rate_limit", "map_async")


def gen_chain(rng, oprop):
    n = rng.choice([1, 2, 2, 3, 3, 4])
    nodes = []
    for _ in range(n):
        if oprop in ("C04", "C05A"):
            k = rng.choice(["inc", "double", "acc", "even", "buffer", "buffer", "delay", "rate_limit", "map_async"])
        else:
            k = rng.choice(["inc", "double", "acc", "even", "buffer", "buffer", "delay", "rate_limit", "map_async",
                            "timed_window", "partition"])
        sp = {"k": k}
        if k == "buffer":
            sp["n"] = rng.choice([1, 2, 3])
        if k in ("delay", "rate_limit", "timed_window"):
            sp["interval"] = rng.choice([1, 2, 3, 4])
        if k == "map_async":
            sp["parallelism"] = rng.choice([1, 2, 3])
        if k == "partition":
            sp["n"] = rng.choice([1, 2, 3])
            sp["timeout"] = rng.choice([2, 3, 4])
        nodes.append(sp)
    acts = []
    nxt = 0
    nrc = 0
    for _ in range(rng.randint(1, 14)):
        u = rng.random()
        if u < 0.5:
            nxt += 1
            acts.append(["emit", nxt, [[nrc, True]]])
            nrc += 1
        elif u < 0.8:
            acts.append(["ack"])
        else:
            acts.append(["adv", rng.choice([1, 2, 3, 4, 8])])
    k = 3 * (nxt + 3)
    for _ in range(k):
        acts.append(["ack"])
        acts.append(["adv", 8])
    acts.append(["ack"])
    return {"chain": nodes, "sink": rng.choice(["ctl", "ctl", "sync"]), "actions": acts, "nrc": nrc}


def reference(chain, inputs):
    """what the synchronous semantics prescribe for the final sink (batchers are followed by flatten)"""
    seq = list(inputs)
    for sp in chain:
        k = sp["k"]
        if k == "inc":
            seq = [x + 1 for x in seq]
        elif k == "double":
            seq = [2 * x for x in seq]
        elif k == "acc":
            out, s = [], 0
            for x in seq:
                s += x
                out.append(s)
            seq = out
        elif k == "even":
            seq = [x for x in seq if x % 2 == 0]
        elif k == "map_async":
            seq = [x * 10 for x in seq]
        # buffer, delay, rate_limit, timed_window+flatten, partition(timeout)+flatten: identity
    return seq


class ChainRun:
    def __init__(self, case):
        self.case = case
        self.loop = vloop.fresh()
        self.deliv = []
        self.outstanding = []
        self.fired = []
        self.done = {}
        self.counters = {}
        self.step = 0

    def build(self):
        from streamz import Stream
        from streamz.core import RefCounter
        run = self
        s = Stream(asynchronous=True)
        self.source = s
        sec = lambda t: t / TICKS_PER_S
        n = s
        for sp in self.case["chain"]:
            k = sp["k"]
            if k == "inc":
                n = n.map(lambda x: x + 1)
            elif k == "double":
                n = n.map(lambda x: 2 * x)
            elif k == "acc":
                n = n.accumulate(lambda a, x: a + x, start=0)
            elif k == "even":
                n = n.filter(lambda x: x % 2 == 0)
            elif k == "buffer":
                n = n.buffer(sp["n"])
            elif k == "delay":
                n = n.delay(sec(sp["interval"]))
            elif k == "rate_limit":
                n = n.rate_limit(sec(sp["interval"]))
            elif k == "map_async":
                async def work(x):
                    await asyncio.sleep(sec((x * 7) % 3))
                    return x * 10
                n = n.map_async(work, parallelism=sp["parallelism"])
            elif k == "timed_window":
                n = n.timed_window(sec(sp["interval"])).flatten()
            elif k == "partition":
                n = n.partition(sp["n"], timeout=sec(sp["timeout"])).flatten()
        if self.case["sink"] == "ctl":
            def sinkf(x):
                fut = run.loop.create_future()
                run.outstanding.append((len(run.deliv) - 1, fut))
                return fut
        else:
            def sinkf(x):
                return None
        self.sink = n.sink(sinkf)
        orig = self.sink.update

        def wrapped(x, who=None, metadata=None):
            mids = [m['id'] for m in (metadata or []) if isinstance(m, dict) and 'id' in m]
            run.deliv.append({"val": x, "md": mids, "step": run.step, "t": run.loop.ticks(),
                              "acked": run.step if run.case["sink"] == "sync" else None})
            return orig(x, who=who, metadata=metadata)
        self.sink.update = wrapped

        class L:
            @staticmethod
            def add_callback(cb, *a, **k):
                cb(*a, **k)
        for i in range(self.case["nrc"]):
            self.counters[i] = RefCounter(initial=0, cb=(lambda i=i: run.fired.append((i, run.step))), loop=L())

    def run(self):
        self.loop.call_soon(self.build)
        self.loop.settle()
        inputs = []
        counts = []
        for step, act in enumerate(self.case["actions"], start=1):
            self.step = step
            if act[0] == "emit":
                _, v, mdj = act
                md = [{"id": i, "ref": self.counters[i]} for (i, r) in mdj]
                eid = len(inputs)
                inputs.append({"val": v, "md": [i for i, _ in mdj], "step": step})

                def go(v=v, md=md, eid=eid):
                    fut = self.source.emit(v, metadata=md)

                    async def waiter():
                        try:
                            await fut
                            self.done[eid] = self.step
                        except Exception:
                            self.done[eid] = -self.step
                    self.loop.create_task(waiter())
                self.loop.call_soon(go)
                self.loop.settle()
            elif act[0] == "ack":
                if self.outstanding:
                    idx, f = self.outstanding.pop(0)
                    self.deliv[idx]["acked"] = step
                    self.loop.call_soon(lambda f=f: f.set_result(None))
                self.loop.settle()
            else:
                self.loop.advance(act[1] / TICKS_PER_S)
            counts.append([self.counters[i].count for i in range(self.case["nrc"])])
        return inputs, counts


def check_one(case, oprop):
    r = ChainRun(case)
    try:
        inputs, counts = r.run()
    finally:
        try:
            r.sink.destroy()
        except Exception:
            pass
        vloop.dispose(r.loop)
    out = []
    kinds = [sp["k"] for sp in case["chain"]]
    drained = not r.outstanding
    got = [d["val"] for d in r.deliv]
    exp = reference(case["chain"], [i["val"] for i in inputs])
    tag = "+".join(kinds)
    if oprop == "C02":
        if got != exp[:len(got)]:
            out.append(("C02", "C02/chain/order-or-dup", "chain %s delivered %r, synchronous semantics give %r" % (tag, got[:12], exp[:12])))
        elif drained and len(got) != len(exp):
            out.append(("C02", "C02/chain/loss", "chain %s delivered %d of %d after everything finished and time advanced" % (tag, len(got), len(exp))))
    if oprop == "C03" and drained:
        pend = [e for e in range(len(inputs)) if e not in r.done]
        if pend:
            out.append(("C03", "C03/chain/lost-wakeup", "chain %s: all consumers finished but emits %r never completed" % (tag, pend[:5])))
    if oprop in ("C04", "C05A") and all(k in ONE_TO_ONE or k == "even" for k in kinds):
        # 1-1 chain with filters: output j is derived from the j-th input that passes the filters
        survivors = []
        vals = [i["val"] for i in inputs]
        alive = list(range(len(inputs)))
        cur = list(vals)
        for sp in case["chain"]:
            k = sp["k"]
            if k == "inc":
                cur = [x + 1 for x in cur]
            elif k == "double":
                cur = [2 * x for x in cur]
            elif k == "acc":
                o, s = [], 0
                for x in cur:
                    s += x
                    o.append(s)
                cur = o
            elif k == "map_async":
                cur = [x * 10 for x in cur]
            elif k == "even":
                keep = [j for j, x in enumerate(cur) if x % 2 == 0]
                alive = [alive[j] for j in keep]
                cur = [cur[j] for j in keep]
        has_waiting = any(k in WAITING for k in kinds)
        for pos, inp_idx in enumerate(alive):
            inp = inputs[inp_idx]
            d = r.deliv[pos] if pos < len(r.deliv) else None
            for rid in inp["md"]:
                fires = [s for (i, s) in r.fired if i == rid]
                if oprop == "C04":
                    for fs in fires:
                        if d is None or d["step"] > fs:
                            out.append(("C04", "C04/early-callback/chain/holder=node", "chain %s: callback of %r fired in step %d before its result reached the sink" % (tag, inp["val"], fs)))
                        elif d["acked"] is None or d["acked"] > fs:
                            cls = "waiting-node-upstream" if has_waiting else "non-waiting-node"
                            out.append(("C04", "C04/early-callback/holder=sink-awaitable/%s" % cls,
                                        "chain %s: callback of %r fired in step %d, the sink finished with it in step %s" % (tag, inp["val"], fs, d["acked"])))
                if oprop == "C05A":
                    if len(fires) > 1:
                        out.append(("C05", "C05/callback-twice/chain", "chain %s: callback of %r fired %d times" % (tag, inp["val"], len(fires))))
                    if drained and d is not None and counts and counts[-1][rid] != 0:
                        out.append(("C05", "C05/imbalance/chain", "chain %s: element %r left the pipeline, counter is %d" % (tag, inp["val"], counts[-1][rid])))
        if oprop == "C05A":
            for step, cs in enumerate(counts):
                if any(c < 0 for c in cs):
                    out.append(("C05", "C05/negative/chain", "chain %s: negative counter after step %d: %r" % (tag, step + 1, cs)))
                    break
    return out


def run_many(rng, n, oprop, tier):
    res = {"n": 0, "nontrivial": 0, "hist": {}, "findings": [], "samples": []}
    seen = set()
    for _ in range(n):
        c = gen_chain(rng, oprop)
        try:
            f = check_one(c, oprop)
        except Exception as e:
            f = [(oprop, "%s/chain/harness-crash" % oprop.replace("C05A", "C05"), "chain driver crashed: %r" % (e,))]
        res["n"] += 1
        key = json.dumps(c, sort_keys=True)
        if key not in seen and any(a[0] == "emit" for a in c["actions"]):
            seen.add(key)
            res["nontrivial"] += 1
        for sp in c["chain"]:
            res["hist"][sp["k"]] = res["hist"].get(sp["k"], 0) + 1
        if f:
            res["findings"].append((c, f))
        if len(res["samples"]) < 1:
            res["samples"].append(c)
    return res
