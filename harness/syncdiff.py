import json, os, sys
sys.path.insert(0, os.path.dirname(os.path.abspath(__file__)))
import common, syncfam
case = json.load(open(sys.argv[1]))["case"]
obs, diag = syncfam.run_case(case)
d = common.scratch("sync_diff")
p = os.path.join(d, "one.v")
with open(p, "w") as f:
    f.write(syncfam.COQ_HEADER)
    f.write(syncfam.coq_case("c0", case, obs))
    f.write("Set Printing Width 200.\nEval vm_compute in (first_diff c0).\n")
rc, out, _ = common.sh("coqc -Q %s/theories SZ -w none %s" % (common.COQ, p))
print(out)
