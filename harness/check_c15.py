"""C15 - delivery follows the current topology under connect / disconnect / destroy / gc."""
import gc
import json, os, random, sys
sys.path.insert(0, os.path.dirname(os.path.abspath(__file__)))
import common, topofam
from symbols import coq_val

KIND = {"pipe": "TPipe", "sink": "TSink", "zip": "TZip", "combine": "TCombine", "rsink": "TRSink"}


def nl(l):
    return "[" + "; ".join(str(int(i)) for i in l) + "]"


def coq_op(op):
    k = op[0]
    if k == "new":
        if op[1] in ("combine_on", "combine_on0"):
            # emit_on = the first input, given as a stream / by position: the same node of the model
            return "ONew (TCombineOn %d) %s" % (op[2][0], nl(op[2]))
        return "ONew %s %s" % (KIND[op[1]], nl(op[2]))
    if k == "emit":
        return "OEmit %d %s" % (op[1], coq_val(op[2]))
    if k == "connect":
        return "OConnect %d %d" % (op[1], op[2])
    if k == "disconnect":
        return "ODisconnect %d %d" % (op[1], op[2])
    if k == "destroy":
        return "ODestroy %d" % op[1]
    if k == "drop":
        return "ODrop %d" % op[1]
    if k == "remit":
        ed = op[4]
        e = {"connect": "EConnect %d %d", "disconnect": "EDisconnect %d %d", "destroy": "EDestroy %d"}[ed[0]] % tuple(ed[1:])
        return "ORemit %d %s %d (%s)" % (op[1], coq_val(op[2]), op[3], e)
    raise KeyError(k)


def coq_obs(o):
    deliv = "[" + "; ".join("(%d, %d, %s)" % (s if s >= 0 else 999999, d, coq_val(x)) for (s, d, x) in o["deliv"]) + "]"
    links = "[" + "; ".join("(%s, %s, %s)" % ("true" if a else "false", nl([x if x >= 0 else 999999 for x in u]), nl([x if x >= 0 else 999999 for x in d]))
                            for (a, u, d) in o["links"]) + "]"
    return "{| to_raised := %s; to_deliv := %s; to_links := %s |}" % ("true" if o["raised"] else "false", deliv, links)


HEADER = "From Coq Require Import List ZArith.\nFrom SZ Require Import Base.Values Sync.Topology.\nImport ListNotations.\nClose Scope Z_scope. Open Scope nat_scope.\n"


def correspondence(tag, cos, shard=200):
    d = common.scratch(tag)
    files = []
    for s in range(0, len(cos), shard):
        p = os.path.join(d, "cases_%d.v" % (s // shard))
        with open(p, "w") as f:
            f.write(HEADER)
            names = []
            for j, (c, o) in enumerate(cos[s:s + shard]):
                f.write("Definition c%d : tcase := {| tc_ops := [%s];\n tc_observed := [%s] |}.\n" % (
                    s + j, "; ".join(coq_op(op) for op in c["ops"]), ";\n  ".join(coq_obs(x) for x in o)))
                names.append("c%d" % (s + j))
            f.write("Eval vm_compute in (map (fun i => i + %d) (tmismatches [%s])).\n" % (s, "; ".join(names)))
        files.append(p)
    res = common.run_case_files(files)
    mism, errors = [], []
    for p in files:
        rc, out = res[p]
        lst = common.parse_natlist(out) if rc == 0 else None
        if lst is None:
            errors.append((p, out[-800:]))
        else:
            mism.extend(lst)
    return sorted(mism), errors


def gen_backlog(rng):
    """a combining node with a backlog on all inputs but one, then the lagging input is disconnected
    (zip must pair the whole backlog; combine_latest must drop the input's slot), then more data"""
    k = rng.choice([2, 3, 3])
    kind = rng.choice(["zip", "zip", "combine"])
    ops = [["new", "pipe", []] for _ in range(k)]
    ops.append(["new", kind, list(range(k))])
    ops.append(["new", "sink", [k]])
    lag = rng.randrange(k)
    v = 0
    if rng.random() < 0.5:
        for i in range(k):
            v += 1
            ops.append(["emit", i, v])
    rounds = rng.choice([1, 2, 3, 4])
    for _ in range(rounds):
        for i in range(k):
            if i != lag:
                v += 1
                ops.append(["emit", i, v])
    ops.append(["disconnect", lag, k])
    for _ in range(rng.choice([0, 1, 2])):
        for i in range(k):
            if i != lag:
                v += 1
                ops.append(["emit", i, v])
    if rng.random() < 0.3:
        ops.append(["connect", lag, k])
        v += 1
        ops.append(["emit", lag, v])
    return {"ops": ops}


def gen_emit_on(rng):
    """a combine_latest with an explicit emit_on (given as a stream or by position), data on every input, an edit of
    its OTHER inputs (connect a new one / disconnect one), then data on every remaining input"""
    k = rng.choice([2, 3])
    ops = [["new", "pipe", []] for _ in range(k)]
    z = k
    ops.append(["new", rng.choice(["combine_on", "combine_on0"]), list(range(k))])
    ops.append(["new", "sink", [z]])
    v = 0
    for i in rng.sample(range(k), k):
        v += 1
        ops.append(["emit", i, v])
    inputs = list(range(k))
    for _ in range(rng.choice([1, 1, 2])):
        if rng.random() < 0.5 or len(inputs) <= 2:
            ops.append(["new", "pipe", []])
            new = sum(1 for o in ops if o[0] == "new") - 1
            ops.append(["connect", new, z])
            inputs.append(new)
        else:
            victim = rng.choice(inputs[1:])
            ops.append(["disconnect", victim, z])
            inputs.remove(victim)
        for i in rng.sample(inputs, len(inputs)):
            v += 1
            ops.append(["emit", i, v])
    return {"ops": ops}


def gen_reentrant(rng):
    """graph edits made from INSIDE a consumer callback while an element is being delivered: a reactive sink under a
    node with several children edits that node's (or its parent's) downstream set; the untouched siblings must still
    get the element, the emit must not fail, and the following emits follow the new topology"""
    ops = [["new", "pipe", []]]
    kinds = ["pipe"]
    parent = 0
    if rng.random() < 0.4:
        ops.append(["new", "pipe", [0]])
        kinds.append("pipe")
        if rng.random() < 0.5:
            ops.append(["new", "sink", [0]])
            kinds.append("sink")
        parent = 1
    nchild = rng.choice([2, 3, 3, 4])
    rpos = rng.randrange(nchild)
    children = []
    rs = None
    for j in range(nchild):
        k = "rsink" if j == rpos else rng.choice(["sink", "sink", "pipe"])
        ops.append(["new", k, [parent]])
        kinds.append(k)
        i = len(kinds) - 1
        children.append(i)
        if k == "rsink":
            rs = i
        if k == "pipe":
            ops.append(["new", "sink", [i]])
            kinds.append("sink")
    # a detached branch that a reaction may connect
    ops.append(["new", "pipe", []])
    kinds.append("pipe")
    spare = len(kinds) - 1
    ops.append(["new", "sink", [spare]])
    kinds.append("sink")
    v = 0
    for _ in range(rng.choice([0, 1, 2])):
        v += 1
        ops.append(["emit", 0, v])
    sibs = [c for c in children if c != rs]
    for _round in range(rng.choice([1, 1, 2])):
        choice = rng.random()
        if choice < 0.35:
            ed = ["destroy", rs]
        elif choice < 0.65 and sibs:
            ed = ["disconnect", parent, rng.choice(sibs)]
            sibs.remove(ed[2])
        elif choice < 0.85 and spare is not None:
            ed = ["connect", parent, spare]
            spare = None
        elif sibs:
            ed = ["destroy", rng.choice(sibs)]
            sibs.remove(ed[1])
        else:
            ed = ["destroy", rs]
        v += 1
        ops.append(["remit", 0, v, rs, ed])
        for _ in range(rng.choice([1, 2])):
            v += 1
            ops.append(["emit", 0, v])
        if ed == ["destroy", rs]:
            break
    return {"ops": ops}


def gen_reentrant2(rng):
    """re-entrant edits on a random small graph (every node stays referenced): pipes, sinks, zips, combine_latest nodes
    and one or two reactive sinks anywhere; data before; then emissions during which a reactive sink connects /
    disconnects / destroys ANY part of the graph (an edge of a loop that is running, of one that has finished, of one
    that has not started yet; an input of a combining node with or without backlog), each followed by plain emits.
    Edits of a later round only involve nodes whose links are certainly unchanged by the earlier ones."""
    ops, kinds, ups = [], [], {}

    def new(kind, u):
        ops.append(["new", kind, list(u)])
        kinds.append(kind)
        ups[len(kinds) - 1] = list(u)
        return len(kinds) - 1

    def paths(extra=None):
        cnt, worst = {}, 1
        for i in range(len(kinds)):
            u = list(ups[i]) + ([extra[0]] if extra and extra[1] == i else [])
            cnt[i] = max(1, sum(cnt.get(a, 1) for a in u))
            worst = max(worst, cnt[i])
        return worst
    nsrc = rng.choice([1, 1, 2, 2, 3])
    for _ in range(nsrc):
        new("pipe", [])
    n_nodes = rng.randint(4, 9)
    n_rs = 0
    while len(kinds) < nsrc + n_nodes:
        non_sinks = [i for i in range(len(kinds)) if kinds[i] not in ("sink", "rsink")]
        kind = rng.choice(["pipe", "pipe", "pipe", "sink", "sink", "zip", "combine", "rsink", rng.choice(["zip", "combine", "combine_on", "combine_on0"])])
        if kind == "rsink" and n_rs >= 2:
            kind = "sink"
        if kind in ("sink", "rsink"):
            new(kind, [rng.choice(non_sinks)])
            n_rs += kind == "rsink"
        else:
            k = rng.choice([1, 1, 2]) if kind == "pipe" else rng.choice([1, 2, 2, 3])
            new(kind, rng.sample(non_sinks, min(k, len(non_sinks))))
            if paths() > 16:
                ops.pop(); kinds.pop(); del ups[len(kinds)]
    if n_rs == 0:
        new("rsink", [rng.choice([i for i in range(len(kinds)) if kinds[i] not in ("sink", "rsink")])])
    rsinks = [i for i in range(len(kinds)) if kinds[i] == "rsink"]
    emitters = [i for i in range(len(kinds)) if kinds[i] not in ("sink", "rsink")]
    srcs = list(range(nsrc))
    v = 0
    for _ in range(rng.choice([0, 1, 2, 4])):
        v += 1
        ops.append(["emit", rng.choice(srcs), v])
    touched = set()
    for _round in range(rng.choice([1, 1, 2, 3])):
        free = [i for i in range(len(kinds)) if i not in touched]
        cands = []
        for d in free:
            for u in ups[d]:
                if u in free:
                    cands.append(["disconnect", u, d])
        for d in free:
            for u in free:
                if u < d and kinds[u] not in ("sink", "rsink") and u not in ups[d] and paths((u, d)) <= 16:
                    cands.append(["connect", u, d])
        for m in free:
            if all(u in free for u in ups[m]):
                cands.append(["destroy", m])
        if not cands:
            break
        want = rng.choice(["disconnect", "disconnect", "connect", "destroy"])
        pool = [c for c in cands if c[0] == want] or cands
        ed = rng.choice(pool)
        t = rng.choice(rsinks)
        # emit at a node from which the reactive sink is reachable (mostly), so that the edit usually happens
        anc, todo = set(), [t]
        while todo:
            a = todo.pop()
            for u in ups[a]:
                if u not in anc:
                    anc.add(u)
                    todo.append(u)
        start = [i for i in emitters if i in anc] if rng.random() < 0.85 else emitters
        n = rng.choice(start or emitters)
        v += 1
        ops.append(["remit", n, v, t, ed])
        # the generator does not know whether the reactive sink was reached: from now on the links of the nodes the
        # edit involves count as unknown
        if ed[0] == "destroy":
            touched.add(ed[1]); touched.update(ups[ed[1]])
        else:
            touched.add(ed[1]); touched.add(ed[2])
        for _ in range(rng.choice([1, 2, 3])):
            v += 1
            ops.append(["emit", rng.choice(srcs if rng.random() < 0.7 else emitters), v])
    return {"ops": ops}


def gen(rng, tier):
    if rng.random() < 0.12:
        return gen_reentrant(rng)
    if rng.random() < 0.12:
        return gen_reentrant2(rng)
    if rng.random() < 0.2:
        return gen_backlog(rng)
    if rng.random() < 0.1:
        return gen_emit_on(rng)
    ops = []
    kinds = []       # per index
    held = set()
    ups = {}         # index -> list of ups (current)
    destroyed = set()
    n_ops = rng.randint(3, 16 if tier == "quick" else 40)
    val = [0]

    def new(kind, u):
        i = len(kinds)
        ops.append(["new", kind, list(u)])
        kinds.append(kind)
        held.add(i)
        ups[i] = list(u)
        return i
    def max_paths(extra=None):
        """largest number of distinct source-to-node paths (a diamond ladder doubles it per layer: keep histories
        whose single emit cannot fan into more than a few dozen deliveries)"""
        paths = {}
        worst = 1
        for i in range(len(kinds) + (1 if extra and extra[0] == "new" else 0)):
            u = list(ups.get(i, []))
            if extra and extra[0] == "new" and i == len(kinds):
                u = list(extra[1])
            if extra and extra[0] == "connect" and i == extra[2]:
                u = u + [extra[1]]
            paths[i] = max(1, sum(paths.get(a, 1) for a in u))
            worst = max(worst, paths[i])
        return worst
    new("pipe", [])
    if rng.random() < 0.7:
        new("pipe", [])
    for _ in range(n_ops):
        u = rng.random()
        non_sinks = sorted(i for i in held if kinds[i] != "sink")
        if u < 0.25 or len(kinds) < 3:
            if not non_sinks:
                continue
            kind = rng.choice(["pipe", "pipe", "sink", "sink", "zip", "combine", "combine_on", "combine_on0"])
            if kind == "sink":
                new(kind, [rng.choice(non_sinks)])
            else:
                k = rng.choice([0, 1, 1, 2]) if kind == "pipe" else rng.choice([1, 2, 2, 3])
                if kind in ("combine_on", "combine_on0") and len(non_sinks) < 1:
                    continue
                u_new = rng.sample(non_sinks, min(k, len(non_sinks)))
                if max_paths(("new", u_new)) <= 32:
                    new(kind, u_new)
        elif u < 0.55:
            if non_sinks:
                val[0] += 1
                ops.append(["emit", rng.choice(non_sinks), val[0]])
        elif u < 0.68:
            cands = [(a, b) for a in non_sinks for b in sorted(held) if a < b and a not in ups[b] and b not in destroyed]
            if cands:
                a, b = rng.choice(cands)
                if max_paths(("connect", a, b)) <= 32:
                    ops.append(["connect", a, b])
                    ups[b].append(a)
        elif u < 0.82:
            cands = [(a, b) for b in sorted(held) for a in ups[b] if a in held]
            if cands and rng.random() < 0.9:
                a, b = rng.choice(cands)
                ops.append(["disconnect", a, b])
                ups[b].remove(a)
            elif len(held) >= 2:
                a, b = rng.sample(sorted(held), 2)
                if a not in ups[b] and kinds[a] != "sink":
                    ops.append(["disconnect", a, b])      # not an edge: must raise, nothing changes
        elif u < 0.9:
            cands = [i for i in sorted(held) if i not in destroyed and (kinds[i] != "sink" or True)]
            if cands:
                i = rng.choice(cands)
                if kinds[i] == "sink" and i in destroyed:
                    continue
                ops.append(["destroy", i])
                ups[i] = []
                if kinds[i] == "sink":
                    destroyed.add(i)
        else:
            if len(held) > 1:
                i = rng.choice(sorted(held))
                ops.append(["drop", i])
                held.discard(i)
    return {"ops": ops}


def oracle(case, obs):
    """the property clauses directly on the observed links and deliveries"""
    out = []
    kinds = []
    destroyed_sinks = set()
    for step, (op, o) in enumerate(zip(case["ops"], obs)):
        if op[0] == "new":
            kinds.append(op[1])
        links = o["links"]
        # (1) links mutually consistent among live nodes (no parallel edges in generated histories)
        for i, (alive, ups, downs) in enumerate(links):
            if not alive:
                continue
            for d in downs:
                if d < 0 or not links[d][0] or i not in links[d][1]:
                    out.append(("C15", "C15/links-inconsistent/down-without-up/%s" % kinds[i], "after step %d (%s): %d lists %d downstream but is not its upstream" % (step, op, i, d)))
            for u in ups:
                if u < 0 or not links[u][0]:
                    out.append(("C15", "C15/links-inconsistent/dead-upstream", "after step %d: %d has a collected upstream" % (step, i)))
                elif i not in links[u][2]:
                    out.append(("C15", "C15/links-inconsistent/up-without-down/%s" % kinds[i], "after step %d (%s): %d lists %d upstream but is not among its downstreams" % (step, op, i, u)))
        # (1c) sinks stay active until destroyed: a sink that was never destroyed is alive, whether or not the program still
        #      refers to it and whatever was connected / disconnected in the meantime
        if op[0] == "destroy" and not o["raised"]:
            destroyed_sinks.add(op[1])
        if op[0] == "remit" and op[4][0] == "destroy" and o.get("edit_done") and not o.get("edit_raised"):
            destroyed_sinks.add(op[4][1])
        for i, (alive, ups, downs) in enumerate(links):
            if i < len(kinds) and kinds[i] in ("sink", "rsink") and i not in destroyed_sinks and not alive:
                out.append(("C15", "C15/sink/collected-without-destroy", "after step %d (%s): sink %d was never destroyed but has been garbage collected" % (step, op, i)))
                return out
        # (1b) destroy detaches the node from ALL its upstream sources (also when done from inside a callback)
        dn = None
        if op[0] == "destroy" and not o["raised"]:
            dn = op[1]
        if op[0] == "remit" and op[4][0] == "destroy" and o.get("edit_done") and not o.get("edit_raised"):
            dn = op[4][1]
        if dn is not None and dn < len(links) and links[dn][0] and links[dn][1]:
            out.append(("C15", "C15/destroy/still-attached", "after step %d (%s): node %d was destroyed but still lists the upstreams %r" % (step, op, dn, links[dn][1])))
        # (2) deliveries exactly along the edges that existed before this op (for emits: current edges)
        prev = obs[step - 1]["links"] if step > 0 else []
        for (s, d, x) in o["deliv"]:
            cur = links
            ok = s >= 0 and d < len(cur) and ((d in cur[s][2]) or (s < len(prev) and prev[s][0] and d in prev[s][2]))
            if not ok:
                out.append(("C15", "C15/delivery-off-edge", "step %d: %d delivered to %d, not a current edge" % (step, s, d)))
        if op[0] == "remit":
            if o["raised"]:
                # (defect 32, repaired; the clause stays so that it fires if the defect returns) a combining node
                # detached by the edit and still served from the snapshot of a loop that was already running: its update
                # raises (zip: self.buffers[who] KeyError; combine_latest: upstreams.index(who) ValueError) and unwinds
                # the whole emission
                ed = op[4]
                tgt = ed[2] if ed[0] == "disconnect" else (ed[1] if ed[0] == "destroy" else None)
                last = o["deliv"][-1] if o["deliv"] else None
                if (o.get("edit_done") and tgt is not None and last is not None and last[1] == tgt and tgt < len(kinds)
                        and kinds[tgt] in ("zip", "combine", "combine_on", "combine_on0")
                        and o["raised"] == ("KeyError" if kinds[tgt] == "zip" else "ValueError")
                        and tgt < len(prev) and last[0] in prev[tgt][1] and last[0] not in links[tgt][1]):
                    out.append(("C15", "C15/reentrant-edit/detached-input-still-served/%s" % ("zip" if kinds[tgt] == "zip" else "combine"),
                                "step %d (%s): node %d was detached from its input %d by the edit made inside the callback, was still handed the element by the running loop of %d (snapshot of the downstream set) and raised %s; the emission was aborted, later siblings never got the element"
                                % (step, op, tgt, last[0], last[0], o["raised"])))
                else:
                    out.append(("C15", "C15/reentrant-edit/emit-raises", "step %d (%s): the emit raised %s: an edit made from inside a consumer callback broke the delivery in progress" % (step, op, o["raised"])))
                return out
            if o.get("edit_raised"):
                out.append(("C15", "C15/reentrant-edit/edit-raises", "step %d (%s): the edit made inside the callback raised %s" % (step, op, o["edit_raised"])))
                return out
            # the emission gives back every reference it took, whatever the callback did to the graph (histories without
            # combining nodes are run with a reference counter in the metadata; the owner's reference is the one left)
            if o.get("refs_left") is not None and o["refs_left"] != 1:
                out.append(("C15", "C15/reentrant-edit/reference-not-released",
                            "step %d (%s): the element's reference counter is at %d after the emission returned (1 = the owner's reference): Stream._emit retained one reference per child of its snapshot and did not release the one of a child the callback detached"
                            % (step, op, o["refs_left"])))
                return out
            # a child detached by the edit before it was served must NOT be handed the element: Stream._emit tests
            # `downstream not in self.downstreams` before each hand-over, so the running loops (which walk the snapshot of
            # the downstream set they took when they started) skip it.  The edit takes effect when the reactive sink is
            # first handed an element: every delivery logged after that one is judged against the edges the edit removed.
            if o.get("edit_done"):
                ed = op[4]
                removed = set()
                if ed[0] == "disconnect":
                    removed.add((ed[1], ed[2]))
                if ed[0] == "destroy" and ed[1] < len(prev) and prev[ed[1]][0]:
                    removed.update((u, ed[1]) for u in prev[ed[1]][1])
                cut = next((k for k, (s_, d, x) in enumerate(o["deliv"]) if d == op[3]), None)
                if cut is not None and removed:
                    for k, (s_, d, x) in enumerate(o["deliv"]):
                        if k > cut and (s_, d) in removed:
                            kd = kinds[d] if d < len(kinds) else "?"
                            kd = {"combine_on": "combine", "combine_on0": "combine"}.get(kd, kd)
                            out.append(("C15", "C15/reentrant-edit/detached-input-still-served/%s" % kd,
                                        "step %d (%s): node %d (%s) was detached from its input %d by the edit made inside the callback and was still handed the element afterwards by the running loop of %d (served from the snapshot of the downstream set)"
                                        % (step, op, d, kd, s_, s_)))
                            return out
            # every node that forwards what it gets (the emitting node, pipes) hands the element to each child whose
            # edge existed before AND after the step (the untouched edges), once per time it received it
            recv = {}
            for (s, d, x) in o["deliv"]:
                recv[d] = recv.get(d, 0) + 1
            recv[op[1]] = recv.get(op[1], 0) + 1
            for p_, cnt in recv.items():
                if p_ >= len(prev) or not prev[p_][0] or kinds[p_] != "pipe":
                    continue
                for d in prev[p_][2]:
                    if d in links[p_][2] and links[d][0]:
                        got_n = sum(1 for (s, d2, x) in o["deliv"] if s == p_ and d2 == d)
                        if got_n != cnt:
                            out.append(("C15", "C15/reentrant-edit/sibling-lost-element", "step %d (%s): node %d received the element %d time(s) but handed it to its untouched child %d %d time(s)" % (step, op, p_, cnt, d, got_n)))
                            return out
        if op[0] == "emit" and not o["raised"]:
            n = op[1]
            got = [d for (s, d, x) in o["deliv"] if s == n]
            exp = list(prev[n][2]) if n < len(prev) else []
            if got != exp:
                out.append(("C15", "C15/delivery-misses-edge", "step %d: %d emitted to %r, its downstreams were %r" % (step, n, got, exp)))
        if out:
            return out
    # (2b) combine_latest with an explicit emit_on keeps emitting ONLY when that input delivers, also after its other
    #      inputs were connected / disconnected (it behaves like a node built over its current inputs with the same emit_on)
    trig = {}      # combine_on node -> its trigger upstream (None once that edge is gone)
    nn = 0
    for step, (op, o) in enumerate(zip(case["ops"], obs)):
        if op[0] == "new":
            if op[1] in ("combine_on", "combine_on0") and op[2]:
                trig[nn] = op[2][0]
            nn += 1
        if o["raised"]:
            continue
        if op[0] == "disconnect" and op[2] in trig and trig[op[2]] == op[1]:
            trig[op[2]] = None
        if op[0] == "destroy":
            if op[1] in trig:
                trig[op[1]] = None
            for z in trig:
                if trig[z] == op[1]:
                    trig[z] = None          # (a destroyed node is detached from its upstreams, not its downstreams: keep simple)
        if op[0] == "drop":
            pass
        for z, t in trig.items():
            if t is None or (op[0] in ("emit", "remit") and op[1] == z):      # (an emit AT the node itself goes straight to its downstreams)
                continue
            emitted = [x for (s_, d, x) in o["deliv"] if s_ == z]
            if emitted and not any(s_ == t and d == z for (s_, d, x) in o["deliv"]):
                out.append(("C15", "C15/combine/emit-on-ignored", "step %d (%s): combine_latest node %d (emit_on = its input %d) emitted %r although that input delivered nothing in this step"
                            % (step, op, z, t, emitted[:3])))
                return out
    # (3) zip behaves like a zip built over its CURRENT inputs fed what they delivered since they were connected:
    #     no complete tuple may stay unpaired after any operation
    fifo = {}      # zip node -> {upstream: [values waiting]}
    nnodes = 0

    def edit_fifo(ed):
        if ed[0] == "connect" and ed[2] in fifo:
            fifo[ed[2]][ed[1]] = []
        if ed[0] == "disconnect" and ed[2] in fifo:
            fifo[ed[2]].pop(ed[1], None)
        if ed[0] == "destroy" and ed[1] in fifo:
            fifo[ed[1]] = {}
    for step, (op, o) in enumerate(zip(case["ops"], obs)):
        if op[0] == "new":
            if op[1] == "zip":
                fifo[nnodes] = {u: [] for u in op[2]}
            nnodes += 1
        if o["raised"]:
            if op[0] == "remit":
                return out          # (aborted emission: reported above or a known finding; the bookkeeping below is void)
            continue
        if op[0] in ("connect", "disconnect", "destroy"):
            edit_fifo(op)
        # an edit made inside the emission takes effect when the reactive sink is first handed an element
        cut = None
        if op[0] == "remit" and o.get("edit_done") and not o.get("edit_raised"):
            cut = next((k for k, (s_, d, x) in enumerate(o["deliv"]) if d == op[3]), None)
        for k, (s_, d, x) in enumerate(o["deliv"]):
            if d in fifo and s_ in fifo[d]:
                fifo[d][s_].append(x)
            if cut is not None and k == cut:
                edit_fifo(op[4])
        prev_links = obs[step - 1]["links"] if step > 0 else []
        # tuples emitted by each zip in this step (count each emission once, not once per downstream)
        for zn, f in fifo.items():
            downs_now = o["links"][zn][2] if zn < len(o["links"]) else []
            if op[0] == "remit" and not (zn < len(prev_links) and prev_links[zn][2]):
                downs_now = []        # nobody listened when the step began: what the zip paired then cannot be observed
            emitted = [x for (s_, d, x) in o["deliv"] if s_ == zn]
            ntuples = len(emitted) // max(1, len(set(d for (s_, d, x) in o["deliv"] if s_ == zn))) if emitted else 0
            for _ in range(ntuples):
                for u in f:
                    if f[u]:
                        f[u].pop(0)
            if not downs_now:
                # nobody listens: emissions cannot be observed; assume the zip paired what it could
                while f and all(len(q) > 0 for q in f.values()):
                    for u in f:
                        f[u].pop(0)
            alive = zn < len(o["links"]) and o["links"][zn][0]
            if alive and f and all(len(q) > 0 for q in f.values()) and downs_now:
                out.append(("C15", "C15/zip/wedged-backlog",
                            "after step %d (%s) zip node %d holds a complete tuple on its current inputs %r that a zip built over them would have emitted"
                            % (step, op, zn, {u: q[:3] for u, q in f.items()})))
                return out
    return out


def run(prop, tier, seed, replay=None):
    out = common.Outcome(prop, tier, seed)
    proof = common.props_check(prop)
    known = common.known_signatures(prop)
    rng = random.Random(seed * 101 + 15)
    cases = [json.load(open(replay))["replay"]["case"]] if replay else [gen(rng, tier) for _ in range(600 if tier == "quick" else 8000)]
    cos = []
    hist = {}
    nontriv = set()
    nfind = 0
    for c in cases:
        try:
            o = topofam.run_case(c)
        except Exception as e:
            out.violation("C15/harness-crash", "driver crashed: %r" % (e,), {"case": c}, no_input=True)
            continue
        cos.append((c, o))
        if len(cos) % 100 == 0:
            gc.freeze()      # the recorded traces are permanent: keep the per-case full collections cheap
        for op in c["ops"]:
            hist[op[0]] = hist.get(op[0], 0) + 1
        if any(ob["deliv"] for ob in o) and any(op[0] in ("connect", "disconnect", "destroy", "drop") for op in c["ops"]):
            nontriv.add(json.dumps(c, sort_keys=True))
        for (p, sig, msg) in oracle(c, o):
            if sig in known:
                out.known_finding(sig, known[sig]["what"])
            elif nfind < 3:
                out.violation(sig, msg, {"case": c})
                nfind += 1
            break
    # every generated history is compared with the Coq model (combine_latest with an explicit emit_on and re-entrant
    # edits included)
    cos_all = cos
    mism, errors = correspondence("C15", cos)
    for p, o in errors:
        out.violation("C15/correspondence-error", "coqc failed: %s" % o[-300:], {"file": p}, no_input=True)
    if mism and not out.violations:
        out.violation("C15/correspondence/model-differs", "Coq model and implementation disagree on %d of %d edit/emit histories" % (len(mism), len(cos)),
                      {"case": cos[mism[0]][0], "correspondence": "Sync.Topology.tagree", "mismatching": mism[:10]}, no_input=True)
    if not proof["ok"]:
        out.violation("C15/proof/%s" % proof["failing"], "proof obligation no longer checks: %s" % proof["failing"],
                      {"theorem_or_file": proof["failing"], "log": proof["log"][-2000:]}, no_input=True)
    cov = {"evaluations": len(cos_all), "distinct_nontrivial": len(nontriv), "cases_oracle_only": len(cos_all) - len(cos),
           "cases_with_emit_on_combine": sum(1 for (c, o) in cos_all if any(op[0] == "new" and op[1] in ("combine_on", "combine_on0") for op in c["ops"])),
           "cases_with_reentrant_edit": sum(1 for (c, o) in cos_all if any(op[0] == "remit" for op in c["ops"])),
           "rule": "random histories of node creation, emit, connect, disconnect (incl. non-edges), destroy and drop-reference (+ forced gc) over pipe/sink/zip/combine_latest (with and without emit_on, by stream and by position) nodes, no parallel edges, edits before and after data; focused backlog / emit_on scenarios; emissions during which a reactive sink edits the graph from inside its callback (focused parent/sibling scenario and random small graphs); non-trivial = at least one edit and one delivery",
           "op_histogram": hist, "traces_validated_against_impl": len(cos) - len(mism), "disagreements_checked": len(mism),
           "samples": [cos[0][0]] if cos else []}
    return out.finish(proof, cov)
