"""Fail-closed translator of `Stream._emit`, `Stream._retain_refs`, `Stream._release_refs` (streamz/core.py) ->
coq/theories/Gen/KN__refs.v (the two helpers) and coq/theories/Gen/KN__emit.v (`_emit`), on every run, from the CURRENT
source under test.  Called from gen_kernels.regenerate().

Every statement becomes one step of the world-level monad of coq/theories/Base/MiniPyW.v, in source order, with the python
source of the statement as a comment above it.  Base/BridgeEmit.v proves
    gen_retain_refs / gen_release_refs = Pipeline.retain / release        and
    Pipeline.push (S fuel) ..          = gen_emit (downs g . n) (call_update_of fuel g depth n) ..
so an edit of the source that changes what `_emit` does changes the generated term and a proof stops checking.

What the translator is TOLD (everything else is derived from the AST, anything not covered raises KernelError -> the
generated file is replaced by one that does not compile -> every property whose cone contains the bridge reports the
obligation as broken):
  * UNOBSERVED: attributes of self whose assignment is not part of the model (no step is generated);
  * `self.downstreams` is the live set of downstream nodes: only `len(..)`, `list(..)` of it and the membership test
    `<loop variable> in / not in self.downstreams` are accepted, all read the parameter `downstreams : world -> list nat`
    at the point of evaluation (iterating the live set directly is refused);
  * `continue` is accepted only where harness/pynorm.py can turn it into an if / else at the top level of the loop body
    (`if c: [C;] continue` followed by B = `if c: C else: B`); any other `continue` is refused;
  * `<downstream>.update(x, who=self, metadata=m)` is the parameter `call_update : nat -> world -> val -> md -> world * status`;
  * the argument `metadata=None` of `_emit` is `a list or None`, represented by a Coq list (None = []): only uses that do
    not tell the two apart are accepted (truthiness; after `if metadata:` it is a list in the true branch);
  * the list `result` of awaitables and what `update` returned are represented by a status (SOk / SFailed) only."""
import ast

import pynorm
from gen_kernels import KernelError, find_class
from gen_kernels import find_func as find_func_raw


def find_func(node, name):
    """the method, normalised (harness/pynorm.py: python-level identities that reduce the number of source shapes)"""
    return pynorm.normalize(find_func_raw(node, name))


def cq(s):
    return s.replace("(*", "( *").replace("*)", "* )").replace('"', "'")


# attributes of self that the model does not observe: `self.<attr> = <effect-free expression>` generates no step
UNOBSERVED = ("current_value", "current_metadata")

RESERVED = {"fun", "let", "in", "end", "match", "with", "if", "then", "else", "at", "as", "return", "fix", "forall", "exists",
            "do", "wret", "wbind", "wrd", "wmod", "wlift", "wfor", "wcall", "wrun", "wworld", "aw", "aws", "aws_nil",
            "aws_extend", "aws_append", "aws_drop_none", "aw_is_list", "md_truthy", "mdi_has_ref", "mdi_ref", "rc_retain",
            "rc_release", "downstreams", "call_update", "node_in", "length", "world", "status", "val", "md", "mdi", "nat", "Z", "tt",
            "unit", "bool", "true", "false", "list", "self", "retain", "release", "push", "deliver", "log", "cnt", "sts",
            "fired", "update", "map", "fst", "snd", "negb", "andb", "orb"}

LIST_NODE = ("list", "node")


def coq_ty(t):
    if isinstance(t, tuple) and t[0] == "list":
        return "(list %s)" % coq_ty(t[1])
    return {"val": "val", "md": "md", "optmd": "md", "mdi": "mdi", "Z": "Z", "aw": "aw", "aws": "aws", "node": "nat",
            "ref": "nat", "bool": "bool", "unit": "unit"}[t]


def unify(a, b):
    if a == b:
        return a
    for p, q in ((a, b), (b, a)):
        if p == "nil" and (q in ("md", "optmd", "aws") or isinstance(q, tuple) and q[0] == "list"):
            return q
        if p == "md" and q == "optmd":
            return "optmd"
    return None


class WorldTr:
    """translates one method of class Stream"""

    def __init__(self, core, helpers):
        self.core = core
        self.classdef = find_class(core, "Stream")
        self.refcounter = find_class(core, "RefCounter")
        self.helpers = helpers        # python name -> (coq term of the generated body, default of n or None)
        self.n = 0
        self.notes = []
        self.tails = []
        self.depth = 0                # nesting in if / for (a `return` is accepted only at depth 0, as the last statement)
        self.ret_ty = None
        self.local_defs = {}          # local helper functions (closures) defined in the method: inlined where called
        self.inlining = []

    # ---- utilities ------------------------------------------------------------------------------------------------
    def fresh(self, base="v"):
        self.n += 1
        return "%s%d" % (base, self.n)

    def note(self, text):
        if text not in self.notes:
            self.notes.append(text)

    def err(self, what, node=None):
        where = ""
        if node is not None and hasattr(node, "lineno"):
            where = " (core.py line %d)" % node.lineno
        raise KernelError("Stream.%s: %s%s" % (self.method, what, where))

    def local(self, name):
        return name + "_" if name in RESERVED else name

    def coerce(self, term, ty, want, node=None):
        if ty == want:
            return term
        if ty == "nil" and (want in ("md", "optmd") or isinstance(want, tuple) and want[0] == "list"):
            return "[]"
        if ty == "nil" and want == "aws":
            return "aws_nil"
        if ty == "md" and want == "optmd":
            return term
        self.err("a %s is used where a %s is needed" % (ty, want), node)

    def tup(self, terms):
        if not terms:
            return "tt"
        if len(terms) == 1:
            return terms[0]
        return "(%s)" % ", ".join(terms)

    def is_self(self, e):
        return isinstance(e, ast.Name) and e.id == "self"

    def self_attr(self, e):
        if isinstance(e, ast.Attribute) and self.is_self(e.value):
            return e.attr
        return None

    def int_default(self, classdef, meth, node):
        """the default of the single optional argument `n` of <class>.<meth>(self, .., n=<int>)"""
        fn = find_func(classdef, meth)
        a = fn.args
        if a.vararg or a.kwarg or a.kwonlyargs or not a.args or a.args[-1].arg != "n" or len(a.defaults) != 1:
            self.err("%s.%s: signature is not (.., n=<int>)" % (classdef.name, meth), node)
        d = a.defaults[0]
        if not (isinstance(d, ast.Constant) and isinstance(d.value, int) and not isinstance(d.value, bool)):
            self.err("%s.%s: default of n is not an integer literal" % (classdef.name, meth), node)
        return d.value

    # ---- expressions: ex() returns (coq term, type); reads / fallible steps / effects go to `binds` in evaluation order
    def bind(self, binds, term, base="v"):
        v = self.fresh(base)
        binds.append((v, term))
        return v

    def ex(self, e, env, binds):
        m = getattr(self, "ex_" + type(e).__name__, None)
        if m is None:
            self.err("expression form %s not translatable: %s" % (type(e).__name__, ast.unparse(e)), e)
        return m(e, env, binds)

    def ex_Name(self, e, env, binds):
        if e.id in env:
            return env[e.id]
        self.err("unknown name %s" % e.id, e)

    def ex_Constant(self, e, env, binds):
        if isinstance(e.value, int) and not isinstance(e.value, bool):
            return ("(%d)%%Z" % e.value, "Z")
        if e.value is True or e.value is False:
            return ("true" if e.value else "false", "bool")
        self.err("constant %r" % (e.value,), e)

    def ex_List(self, e, env, binds):
        if not e.elts:
            return ("[]", "nil")
        self.err("list display %s" % ast.unparse(e), e)

    def ex_Attribute(self, e, env, binds):
        name = self.self_attr(e)
        if name == "downstreams":
            return ("downstreams", "liveset")
        if name is not None:
            self.err("attribute self.%s is not known to the model" % name, e)
        self.err("attribute access %s" % ast.unparse(e), e)

    def ex_Subscript(self, e, env, binds):
        tv, tyv = self.ex(e.value, env, binds)
        if tyv == "mdi" and isinstance(e.slice, ast.Constant) and e.slice.value == "ref":
            # m['ref']: KeyError when the key is absent
            return (self.bind(binds, "wlift (mdi_ref %s)" % tv), "ref")
        self.err("subscript %s" % ast.unparse(e), e)

    def truthy(self, term, ty, node):
        if ty == "bool":
            return term
        if ty in ("md", "optmd"):
            return "(md_truthy %s)" % term
        self.err("truthiness of a %s" % (ty,), node)

    def cond(self, e, env, binds):
        if isinstance(e, ast.BoolOp):
            op = "&&" if isinstance(e.op, ast.And) else "||"
            parts = []
            for i, v in enumerate(e.values):
                sub = []
                parts.append(self.cond(v, env, sub))
                if i > 0 and sub:
                    self.err("operand with a step in short-circuit position: %s" % ast.unparse(v), v)
                binds.extend(sub)
            return "(" + (" %s " % op).join(parts) + ")"
        if isinstance(e, ast.UnaryOp) and isinstance(e.op, ast.Not):
            return "(negb %s)" % self.cond(e.operand, env, binds)
        t, ty = self.ex(e, env, binds)
        return self.truthy(t, ty, e)

    def ex_BoolOp(self, e, env, binds):
        return (self.cond(e, env, binds), "bool")

    def ex_UnaryOp(self, e, env, binds):
        if isinstance(e.op, ast.Not):
            return (self.cond(e, env, binds), "bool")
        self.err("unary operator in %s" % ast.unparse(e), e)

    def ex_Compare(self, e, env, binds):
        if len(e.ops) != 1:
            self.err("chained comparison", e)
        op, a, b = e.ops[0], e.left, e.comparators[0]
        if isinstance(op, (ast.In, ast.NotIn)) and isinstance(a, ast.Constant) and a.value == "ref":
            t, ty = self.ex(b, env, binds)
            if ty != "mdi":
                self.err("`'ref' in` a %s" % (ty,), e)
            r = "(mdi_has_ref %s)" % t
            return (("(negb %s)" % r) if isinstance(op, ast.NotIn) else r, "bool")
        if isinstance(op, (ast.In, ast.NotIn)) and self.self_attr(b) == "downstreams":
            # <downstream> in self.downstreams: membership in the live set, read NOW (a step: the set may have changed
            # since the snapshot the loop walks was taken)
            if not isinstance(a, ast.Name):
                self.err("membership in self.downstreams of something that is not a local: %s" % ast.unparse(a), e)
            t, ty = self.ex(a, env, binds)
            if ty != "node":
                self.err("membership in self.downstreams of a %s" % (ty,), e)
            v = self.bind(binds, "wrd (fun w_ => node_in %s (downstreams w_))" % t, "b")
            return (("(negb %s)" % v) if isinstance(op, ast.NotIn) else v, "bool")
        if isinstance(op, (ast.Is, ast.IsNot)) and ast.unparse(b) == "list" and isinstance(a, ast.Call) \
                and isinstance(a.func, ast.Name) and a.func.id == "type" and len(a.args) == 1 and not a.keywords:
            t, ty = self.ex(a.args[0], env, binds)
            if ty != "aw":
                self.err("type(..) is list of a %s" % (ty,), e)
            r = "(aw_is_list %s)" % t
            return (("(negb %s)" % r) if isinstance(op, ast.IsNot) else r, "bool")
        if isinstance(op, (ast.Is, ast.IsNot)) and ast.unparse(b) == "None":
            t, ty = self.ex(a, env, binds)
            self.err("`is None` test on a %s: the representation does not tell None from an empty list" % (ty,), e)
        self.err("comparison %s" % ast.unparse(e), e)

    def mterm(self, binds, term):
        return "(" + " ".join("do %s <- %s ;;" % ("_" if v.startswith("u") else v, t) for v, t in binds) \
            + (" " if binds else "") + "wret %s)" % term

    def ex_IfExp(self, e, env, binds):
        """a if c else b: the test first, then ONLY the chosen arm (an arm with a step becomes an `if` at the monad level)"""
        c = self.cond(e.test, env, binds)
        b1, b2 = [], []
        t1, ty1 = self.ex(e.body, self.narrow(e.test, env, True), b1)
        t2, ty2 = self.ex(e.orelse, self.narrow(e.test, env, False), b2)
        ty = unify(ty1, ty2)
        if ty is None or ty in ("liveset", "self"):
            self.err("conditional expression: a %s or a %s" % (ty1, ty2), e)
        if ty == "nil":
            return ("[]", "nil")
        t1, t2 = self.coerce(t1, ty1, ty, e), self.coerce(t2, ty2, ty, e)
        if not b1 and not b2:
            return ("(if %s then %s else %s)" % (c, t1, t2), ty)
        return (self.bind(binds, "(if %s then %s else %s)" % (c, self.mterm(b1, t1), self.mterm(b2, t2)),
                          "u" if ty == "unit" else "v"), ty)

    def ex_ListComp(self, e, env, binds):
        """[v for v in <awaitables> if v is not None]"""
        g = e.generators
        if len(g) == 1 and not g[0].is_async and isinstance(g[0].target, ast.Name) and isinstance(e.elt, ast.Name) \
                and e.elt.id == g[0].target.id and len(g[0].ifs) == 1 \
                and ast.unparse(g[0].ifs[0]) == "%s is not None" % g[0].target.id:
            t, ty = self.ex(g[0].iter, env, binds)
            if ty in ("aws", "nil"):
                return ("(aws_drop_none %s)" % self.coerce(t, ty, "aws", e), "aws")
            self.err("filtering comprehension over a %s" % (ty,), e)
        self.err("comprehension %s" % ast.unparse(e), e)

    def call_args(self, e, names, what):
        """bind positional / keyword arguments of a call to the parameter names; -> {name: ast}"""
        got = {}
        if len(e.args) > len(names):
            self.err("%s: too many arguments" % what, e)
        for n, a in zip(names, e.args):
            if isinstance(a, ast.Starred):
                self.err("%s: starred argument" % what, e)
            got[n] = a
        for k in e.keywords:
            if k.arg is None or k.arg not in names or k.arg in got:
                self.err("%s: keyword argument %s" % (what, k.arg), e)
            got[k.arg] = k.value
        return got

    def ex_Call(self, e, env, binds):
        f = e.func
        if isinstance(f, ast.Name):
            if f.id in ("len", "list") and len(e.args) == 1 and not e.keywords:
                t, ty = self.ex(e.args[0], env, binds)
                if ty == "liveset":
                    # the set is read NOW (a node that detaches itself later is still in a snapshot taken before)
                    t, ty = self.bind(binds, "wrd downstreams"), LIST_NODE
                elif not (ty == "md" or isinstance(ty, tuple) and ty[0] == "list"):
                    self.err("%s() of a %s" % (f.id, ty), e)
                if f.id == "len":
                    return ("(Z.of_nat (length %s))" % t, "Z")
                return (t, ty)          # a copy
            self.err("call of %s" % f.id, e)
        if not isinstance(f, ast.Attribute):
            self.err("call %s" % ast.unparse(e), e)
        name = self.self_attr(f)
        if name is not None:
            if name in self.helpers:
                body, default = self.helpers[name]
                got = self.call_args(e, ["metadata", "n"], "self.%s" % name)
                if "metadata" not in got:
                    self.err("self.%s without metadata" % name, e)
                tm, tym = self.ex(got["metadata"], env, binds)
                tm = self.coerce(tm, tym, "md", e)      # an `optmd` (possibly None) is refused: iterating None raises
                if "n" in got:
                    tn, tyn = self.ex(got["n"], env, binds)
                    if tyn != "Z":
                        self.err("self.%s: n is a %s" % (name, tyn), e)
                else:
                    tn = "(%d)%%Z" % default
                self.bind(binds, "%s %s %s" % (body, tm, tn), "u")
                return ("tt", "unit")
            self.err("call of self.%s" % name, e)
        if isinstance(f.value, ast.Name) and f.value.id in env and env[f.value.id][1] == "node" and f.attr == "update":
            # <downstream>.update(x, who=self, metadata=metadata)
            got = self.call_args(e, ["x", "who", "metadata"], "%s.update" % f.value.id)
            if set(got) != {"x", "who", "metadata"}:
                self.err("%s.update: x, who and metadata must all be passed" % f.value.id, e)
            tx, tyx = self.ex(got["x"], env, binds)
            if tyx != "val":
                self.err("update: x is a %s" % (tyx,), e)
            if not self.is_self(got["who"]):
                self.err("update: who is not self", e)
            tm, tym = self.ex(got["metadata"], env, binds)
            if tym == "optmd":
                self.err("update is given metadata that may be None", e)
            tm = self.coerce(tm, tym, "md", e)
            d = env[f.value.id][0]
            return (self.bind(binds, "wcall (fun w_ => call_update %s w_ %s %s)" % (d, tx, tm), "r"), "aw")
        if f.attr in ("retain", "release"):
            tv, tyv = self.ex(f.value, env, binds)
            if tyv != "ref":
                self.err("%s() of a %s" % (f.attr, tyv), e)
            got = self.call_args(e, ["n"], "RefCounter.%s" % f.attr)
            default = self.int_default(self.refcounter, f.attr, e)
            if "n" in got:
                tn, tyn = self.ex(got["n"], env, binds)
                if tyn != "Z":
                    self.err("RefCounter.%s: n is a %s" % (f.attr, tyn), e)
            else:
                tn = "(%d)%%Z" % default
            self.bind(binds, "rc_%s %s %s" % (f.attr, tv, tn), "u")
            return ("tt", "unit")
        self.err("call %s" % ast.unparse(e), e)

    # ---- statements ------------------------------------------------------------------------------------------------
    def emit_binds(self, binds, ind):
        return ["%sdo %s <- %s ;;" % (ind, "_" if v.startswith("u") else v, t) for v, t in binds]

    def src(self, s, ind):
        return "%s(* %s *)" % (ind, cq(ast.unparse(s).split("\n")[0]))

    def go(self, stmts, env, ind):
        if not stmts:
            return [ind + self.tails[-1](env)]
        s, rest = stmts[0], stmts[1:]
        m = getattr(self, "st_" + type(s).__name__, None)
        if m is None:
            self.err("statement form %s not translatable: %s" % (type(s).__name__, ast.unparse(s).split("\n")[0]), s)
        return m(s, rest, env, ind)

    def st_FunctionDef(self, s, rest, env, ind):
        """a local helper defined inside the method (a closure over the method's locals): inlined where it is called as
        a statement"""
        a = s.args
        if s.decorator_list or a.defaults or a.kw_defaults or a.vararg or a.kwarg or a.kwonlyargs or a.posonlyargs:
            self.err("local function %s: only plain positional parameters are supported" % s.name, s)
        for n in ast.walk(s):
            if isinstance(n, (ast.Return, ast.Nonlocal, ast.Global, ast.Yield, ast.YieldFrom, ast.Await)) \
                    or (isinstance(n, (ast.FunctionDef, ast.AsyncFunctionDef, ast.Lambda)) and n is not s):
                self.err("local function %s contains %s" % (s.name, type(n).__name__), s)
        if s.name in env:
            self.err("local function %s shadows a local" % s.name, s)
        if self.depth:
            self.err("local function %s is defined inside a branch or a loop" % s.name, s)
        self.local_defs[s.name] = s
        return [self.src(s, ind)] + self.go(rest, env, ind)

    def is_local_call(self, v):
        return isinstance(v, ast.Call) and isinstance(v.func, ast.Name) and v.func.id in self.local_defs

    def inline_local(self, call, rest, env, ind, node):
        fn = self.local_defs[call.func.id]
        if fn.name in self.inlining:
            self.err("recursive local function %s" % fn.name, node)
        params = [a.arg for a in fn.args.args]
        if len(call.args) != len(params) or call.keywords or any(isinstance(a, ast.Starred) for a in call.args):
            self.err("call of local function %s" % fn.name, node)
        binds = []
        env2 = dict(env)                    # a closure reads the enclosing locals as they are at the time of the call
        for p_, a_ in zip(params, call.args):
            t, ty = self.ex(a_, env, binds)                 # the arguments first, left to right, in the caller
            if ty in ("liveset", "self", "unit"):
                self.err("a %s is passed to local function %s" % (ty, fn.name), node)
            env2[p_] = (t, ty)
        # an assignment inside the closure creates a local of the closure; one that would shadow an enclosing name is
        # refused (mutating an enclosing list through .extend / .append is fine: it is the same object)
        for n in ast.walk(fn):
            if isinstance(n, ast.Name) and isinstance(n.ctx, ast.Store) and n.id in env and n.id not in params:
                self.err("local function %s assigns the enclosing name %s" % (fn.name, n.id), node)
        own = set(params) | set(n.id for n in ast.walk(fn) if isinstance(n, ast.Name) and isinstance(n.ctx, ast.Store))
        out = [self.src(node, ind)] + self.emit_binds(binds, ind)
        out.append("%s(* ---- inlined: local def %s(%s) *)" % (ind, fn.name, ", ".join(params)))
        marker = ast.Pass()
        marker._end_inline = (fn.name, env, own)
        self.inlining.append(fn.name)
        try:
            return out + self.go(list(fn.body) + [marker] + rest, env2, ind)
        finally:
            self.inlining.pop()

    def st_Pass(self, s, rest, env, ind):
        if hasattr(s, "_end_inline"):
            name, saved, own = s._end_inline
            # back in the caller: the closure's own names are gone, the caller's are as before - except the enclosing
            # lists the closure mutated, which keep what the closure did to them
            env2 = {k: v for k, v in env.items() if k not in own}
            for k, v in saved.items():
                if k in own:
                    env2[k] = v
            return ["%s(* ---- end of %s *)" % (ind, name)] + self.go(rest, env2, ind)
        return self.go(rest, env, ind)

    def aws_mutation(self, target, meth, arg, env, node):
        """<local list of awaitables>.extend(r) / .append(r) / += r: the local is rebound"""
        if target not in env or env[target][1] not in ("aws", "nil"):
            self.err("%s of %s, which is not a local list of awaitables" % (meth, target), node)
        binds = []
        t, ty = self.ex(arg, env, binds)
        if binds or ty != "aw":
            self.err("a %s is added to the list of awaitables" % (ty,), node)
        cur = self.coerce(env[target][0], env[target][1], "aws", node)
        return "(aws_%s %s %s)" % (meth, cur, t)

    def rebind(self, name, term, ty, env, ind):
        env = dict(env)
        c = self.local(name)
        if ty == "nil":
            env[name] = (term, ty)
            return env, []
        env[name] = (c, ty)
        return env, ["%slet %s := %s in" % (ind, c, term)]

    def st_Expr(self, s, rest, env, ind):
        v = s.value
        if isinstance(v, ast.Constant) and isinstance(v.value, str):
            return self.go(rest, env, ind)           # docstring
        if isinstance(v, ast.Call) and isinstance(v.func, ast.Attribute) and isinstance(v.func.value, ast.Name) \
                and v.func.attr in ("extend", "append") and len(v.args) == 1 and not v.keywords:
            term = self.aws_mutation(v.func.value.id, v.func.attr, v.args[0], env, s)
            env, lines = self.rebind(v.func.value.id, term, "aws", env, ind)
            return [self.src(s, ind)] + lines + self.go(rest, env, ind)
        if self.is_local_call(v):
            return self.inline_local(v, rest, env, ind, s)
        binds = []
        t, ty = self.ex(v, env, binds)
        if not binds:
            self.err("statement without effect: %s" % ast.unparse(s), s)
        return [self.src(s, ind)] + self.emit_binds(binds, ind) + self.go(rest, env, ind)

    def st_AugAssign(self, s, rest, env, ind):
        if isinstance(s.target, ast.Name) and isinstance(s.op, ast.Add):
            term = self.aws_mutation(s.target.id, "extend", s.value, env, s)       # list += iterable is extend
            env, lines = self.rebind(s.target.id, term, "aws", env, ind)
            return [self.src(s, ind)] + lines + self.go(rest, env, ind)
        self.err("augmented assignment %s" % ast.unparse(s), s)

    def st_Assign(self, s, rest, env, ind):
        if len(s.targets) != 1:
            self.err("chained assignment", s)
        tgt = s.targets[0]
        out = [self.src(s, ind)]
        binds = []
        if isinstance(tgt, ast.Tuple):
            # a, b = p, q: the whole right-hand side is evaluated first, then the targets are assigned left to right
            if not (isinstance(s.value, ast.Tuple) and len(s.value.elts) == len(tgt.elts)) \
                    or any(isinstance(t1, ast.Starred) for t1 in list(tgt.elts) + list(s.value.elts)):
                self.err("tuple assignment %s" % ast.unparse(s), s)
            vals = [self.ex(v, env, binds) for v in s.value.elts]
            out += self.emit_binds(binds, ind)
            for t1, (term, ty) in zip(tgt.elts, vals):
                env, lines = self.assign_to(t1, term, ty, False, env, ind, s)
                out += lines
            return out + self.go(rest, env, ind)
        term, ty = self.ex(s.value, env, binds)
        out += self.emit_binds(binds, ind)
        env, lines = self.assign_to(tgt, term, ty, bool(binds), env, ind, s)
        return out + lines + self.go(rest, env, ind)

    def assign_to(self, tgt, term, ty, stepped, env, ind, s):
        """one assignment target -> (env, lines)"""
        name = self.self_attr(tgt)
        if name is not None:
            if name not in UNOBSERVED:
                self.err("assignment to self.%s, which is not in the list of unobserved attributes" % name, s)
            if stepped:
                self.err("assignment to the unobserved self.%s has a right-hand side with a step" % name, s)
            self.note("self.%s is not observed by the model: the assignment generates no step" % name)
            return env, ["%s(* self.%s is not observed by the model: no step *)" % (ind, name)]
        if not isinstance(tgt, ast.Name):
            self.err("assignment target %s" % ast.unparse(tgt), s)
        if ty in ("liveset", "self", "unit"):
            self.err("a %s is bound to a local" % (ty,), s)
        if tgt.id in self.local_defs:
            self.err("the local function %s is rebound" % tgt.id, s)
        return self.rebind(tgt.id, term, ty, env, ind)

    def st_Return(self, s, rest, env, ind):
        if rest or self.depth:
            self.err("return that is not the last statement of the method", s)
        out = [self.src(s, ind)]
        if s.value is None:
            self.ret_ty = "unit"
            return out + [ind + "wret tt"]
        binds = []
        t, ty = self.ex(s.value, env, binds)
        if ty == "nil":
            t, ty = "aws_nil", "aws"
        if ty != "aws":
            self.err("return of a %s" % (ty,), s)
        self.ret_ty = ty
        return out + self.emit_binds(binds, ind) + ["%swret %s" % (ind, t)]

    def assigned_names(self, stmts, seen=()):
        res = []
        for st in stmts:
            for n in ast.walk(st):
                name = None
                if isinstance(n, ast.Name) and isinstance(n.ctx, ast.Store):
                    name = n.id
                if isinstance(n, ast.Call) and isinstance(n.func, ast.Attribute) and isinstance(n.func.value, ast.Name) \
                        and n.func.attr in ("extend", "append"):
                    name = n.func.value.id
                if name is not None and name not in res:
                    res.append(name)
                if self.is_local_call(n) and n.func.id not in seen:
                    # the enclosing lists a local function mutates are mutated by the call
                    fn = self.local_defs[n.func.id]
                    own = set(a.arg for a in fn.args.args) | set(m.id for m in ast.walk(fn)
                                                                 if isinstance(m, ast.Name) and isinstance(m.ctx, ast.Store))
                    for name in self.assigned_names(fn.body, seen + (n.func.id,)):
                        if name not in own and name not in res:
                            res.append(name)
        return res

    def branch(self, stmts, env, ind, carried, want):
        """translate a block that ends by handing on the locals `carried`; want = None: dry run that records their types.
        -> (lines, exit types)"""
        seen = {}

        def tail(e):
            for n in carried:
                seen[n] = e[n][1] if n in e else None
            if want is None:
                return "wret tt"
            return "wret %s" % self.tup([self.coerce(e[n][0], e[n][1], want[n]) for n in carried])
        self.tails.append(tail)
        self.depth += 1
        try:
            lines = self.go(list(stmts), env, ind)
        finally:
            self.tails.pop()
            self.depth -= 1
        return lines, seen

    def narrow(self, test, env, positive):
        """`if <name>:` / `if not <name>:` on `a list or None`: it is a (non-empty) list where <name> is truthy"""
        if isinstance(test, ast.UnaryOp) and isinstance(test.op, ast.Not):
            return self.narrow(test.operand, env, not positive)
        if positive and isinstance(test, ast.Name) and test.id in env and env[test.id][1] == "optmd":
            env = dict(env)
            env[test.id] = (env[test.id][0], "md")
        return env

    def st_If(self, s, rest, env, ind):
        out = [self.src(s, ind)]
        binds = []
        c = self.cond(s.test, env, binds)
        out += self.emit_binds(binds, ind)
        names = self.assigned_names(list(s.body) + list(s.orelse))
        env1, env2 = self.narrow(s.test, env, True), self.narrow(s.test, env, False)
        saved = self.n
        _, t1 = self.branch(s.body, env1, ind + "    ", names, None)
        _, t2 = self.branch(s.orelse, env2, ind + "    ", names, None)
        self.n = saved
        carried, want = [], {}
        for n in names:
            if t1.get(n) is None or t2.get(n) is None:
                continue                      # not bound on both paths: not visible afterwards
            u = unify(t1[n], t2[n])
            if u is None:
                self.err("%s is a %s or a %s after the `if`" % (n, t1[n], t2[n]), s)
            if u == "nil":
                continue                      # the literal [] on both paths: stays a literal
            carried.append(n)
            want[n] = u
        b1, _ = self.branch(s.body, env1, ind + "    ", carried, want)
        b2, _ = self.branch(s.orelse, env2, ind + "    ", carried, want)
        st = self.fresh("st") if carried else "_"
        out.append("%sdo %s <- (if %s then (" % (ind, st, c))
        out += b1
        out.append("%s  ) else (" % ind)
        if s.orelse:
            out.append("%s    (* else: *)" % ind)
        out += b2
        out.append("%s  )) ;;" % ind)
        env = dict(env)
        for n in names:
            if n not in carried:
                if t1.get(n) == "nil" and t2.get(n) == "nil":
                    env[n] = ("[]", "nil")
                else:
                    env.pop(n, None)
        if carried:
            pat = self.tup([self.local(n) for n in carried])
            out.append("%slet %s%s := %s in" % (ind, "'" if len(carried) > 1 else "", pat, st))
            for n in carried:
                env[n] = (self.local(n), want[n])
        return out + self.go(rest, env, ind)

    def st_For(self, s, rest, env, ind):
        if s.orelse:
            self.err("for ... else", s)
        if not isinstance(s.target, ast.Name):
            self.err("for target %s" % ast.unparse(s.target), s)
        out = [self.src(s, ind)]
        binds = []
        tl, tyl = self.ex(s.iter, env, binds)
        if tyl == "liveset":
            self.err("iteration over the live set self.downstreams without the list(..) snapshot (a downstream that "
                     "detaches itself during the loop would change the iteration)", s)
        if tyl == "md":
            elem = "mdi"
        elif isinstance(tyl, tuple) and tyl[0] == "list":
            elem = tyl[1]
        else:
            self.err("for loop over a %s" % (tyl,), s)
        out += self.emit_binds(binds, ind)
        var = self.local(s.target.id)
        names = [n for n in self.assigned_names(s.body) if n != s.target.id and n in env]
        entry = {n: env[n][1] for n in names}
        benv = dict(env)
        benv[s.target.id] = (var, elem)
        saved = self.n
        _, t1 = self.branch(s.body, benv, ind + "    ", names, None)
        self.n = saved
        want = {}
        for n in names:
            u = unify(entry[n], t1[n]) if t1.get(n) is not None else None
            if u is None or u == "nil":
                self.err("the loop changes the type of %s (%s, then %s)" % (n, entry[n], t1.get(n)), s)
            want[n] = u
        st = self.fresh("st")
        for n in names:
            benv[n] = (self.local(n), want[n])
        body, t2 = self.branch(s.body, benv, ind + "    ", names, want)
        for n in names:
            if unify(t2[n], want[n]) != want[n]:
                self.err("the loop changes the type of %s (%s, then %s)" % (n, want[n], t2[n]), s)
        init = self.tup([self.coerce(env[n][0], env[n][1], want[n], s) for n in names])
        pat = self.tup([self.local(n) for n in names])
        q = "'" if len(names) > 1 else ""
        out.append("%sdo %s <- wfor %s %s (fun %s %s_in =>" % (ind, st if names else "_", tl, init, var, st))
        if names:
            out.append("%s    let %s%s := %s_in in" % (ind, q, pat, st))
        out += body
        out.append("%s  ) ;;" % ind)
        env = dict(env)
        if names:
            out.append("%slet %s%s := %s in" % (ind, q, pat, st))
        for n in names:
            env[n] = (self.local(n), want[n])
        for n in self.assigned_names(s.body) + [s.target.id]:
            if n not in names:
                env.pop(n, None)          # bound only inside the loop: not visible afterwards
        return out + self.go(rest, env, ind)

    # ---- a whole method ---------------------------------------------------------------------------------------------
    def translate(self, method, defname, args, params, want_ret):
        """args: [(python name, default source or None, coq name, type)] after self; params: extra coq binders"""
        self.method = method
        fn = find_func(self.classdef, method)
        if isinstance(fn, ast.AsyncFunctionDef) or fn.decorator_list:
            self.err("the method is async or decorated")
        a = fn.args
        got = [x.arg for x in a.args]
        if got != ["self"] + [x[0] for x in args] or a.vararg or a.kwarg or a.kwonlyargs or a.posonlyargs:
            self.err("signature is (%s), expected (%s)" % (", ".join(got), ", ".join(["self"] + [x[0] for x in args])))
        defaults = [None] * (len(a.args) - len(a.defaults)) + [ast.unparse(d) for d in a.defaults]
        if defaults[1:] != [x[1] for x in args]:
            self.err("defaults are %s, expected %s" % (defaults[1:], [x[1] for x in args]))
        env = {x[0]: (x[2], x[3]) for x in args}
        self.tails = [lambda e: "wret tt"]
        self.depth = 0
        self.ret_ty = "unit"
        body = self.go(list(fn.body), env, "  ")
        if self.ret_ty != want_ret:
            self.err("the method returns a %s, expected %s" % (self.ret_ty, want_ret))
        ar = "".join(" (%s : %s)" % (x[2], coq_ty(x[3])) for x in args)
        lines = ["(* Stream.%s, core.py line %d *)" % (method, fn.lineno),
                 "Definition %s%s%s : W %s :=" % (defname, params, ar, coq_ty(want_ret))]
        lines += body
        lines[-1] += "."
        return lines


HEADER = """(* GENERATED by harness/gen_emit.py from the source under test on every run - do not edit *)
From Coq Require Import List ZArith Bool Arith.
From SZ Require Import Base.Values Sync.Nodes Sync.Pipeline Base.MiniPyW.
%sImport ListNotations.
Close Scope Z_scope.
Open Scope nat_scope.
Open Scope pyw_scope.
"""

EMIT_PARAMS = " (downstreams : world -> list nat) (call_update : nat -> world -> val -> md -> world * status)"


def notes_block(notes):
    out = ["(* assumptions made by the translator:"]
    for a in notes or ["none"]:
        out.append("   - " + cq(a))
    out.append("*)")
    return out


def gen_refs(core):
    out = [HEADER % ""]
    notes = []
    for meth, short in (("_retain_refs", "retain_refs"), ("_release_refs", "release_refs")):
        tr = WorldTr(core, {})
        n_default = tr_default(tr, meth)
        out += tr.translate(meth, "gen_body_%s" % meth, [("metadata", None, "metadata", "md"), ("n", str(n_default), "n", "Z")],
                            "", "unit")
        out += ["", "(* the world after self.%s(m, n) *)" % meth,
                "Definition gen_%s (w : world) (m : md) (n : Z) : world := wworld (gen_body_%s m n w)." % (short, meth), ""]
        notes += [x for x in tr.notes if x not in notes]
    out += notes_block(notes)
    return "\n".join(out) + "\n"


def tr_default(tr, meth):
    tr.method = meth
    return tr.int_default(tr.classdef, meth, None)


def gen_emit(core):
    probe = WorldTr(core, {})
    helpers = {m: ("gen_body_%s" % m, tr_default(probe, m)) for m in ("_retain_refs", "_release_refs")}
    tr = WorldTr(core, helpers)
    tr.note("metadata=None is represented by the empty list; the translator types the argument as `a list or None` and "
            "refuses any use that tells the two apart")
    tr.note("the list of awaitables `result` and what update returned are represented by a status (SOk: no failed "
            "awaitable, SFailed: one failed); an exception raised by update unwinds the method")
    out = [HEADER % "From SZ Require Import Gen.KN__refs.\n"]
    out += tr.translate("_emit", "gen_body__emit", [("x", None, "x", "val"), ("metadata", "None", "metadata", "optmd")],
                        EMIT_PARAMS, "aws")
    out += ["", "(* Stream._emit as a function on worlds; the returned list of awaitables is represented by the status only *)",
            "Definition gen_emit%s (w : world) (x : val) (m : md) : world * status :=" % EMIT_PARAMS,
            "  wrun (gen_body__emit downstreams call_update x m) w.", ""]
    out += notes_block(tr.notes)
    return "\n".join(out) + "\n"


ORDER = ["KN__refs", "KN__emit"]


def generate_all(core):
    """-> {file stem: (text or None, error or None)}"""
    res = {}
    for stem, fn in (("KN__refs", gen_refs), ("KN__emit", gen_emit)):
        try:
            res[stem] = (fn(core), None)
        except KernelError as e:
            res[stem] = (None, str(e))
    return res
